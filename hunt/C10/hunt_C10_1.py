#!/venv/bin/python
"""
C10 hunt, finding 1: the automatic renaming of a duplicated experiment name can pick a name that is
already taken by ANOTHER experiment. Both experiments are then written into the same output folder
(the later one silently overwrites the earlier one) and the combined_* tables get the columns
<name>_x / <name>_y, both filled from the surviving files.

Input: a YAML (the same happens with --bam_list) with the experiments  A, OUT2, A .
The third experiment has a duplicated name and is renamed to  <prefix><index> = "OUT2"  by
src/input_data_storage.py, which only checks that the new name differs from the duplicated one.

Exit code 1 (and a description) when the property is violated, 0 otherwise.
"""
import gzip
import os
import random
import shutil
import subprocess
import sys

import pysam

REPO = os.path.dirname(os.path.abspath(__file__))
PY = "/venv/bin/python"
W = "/tmp/huntscratch_C10/hunt1"


def build_inputs():
    rnd = random.Random(7)
    seq = [rnd.choice("ACGT") for _ in range(6000)]
    for i in range(3, len(seq)):  # no homopolymer runs (no accidental polyA)
        if seq[i] == seq[i - 1] == seq[i - 2] == seq[i - 3]:
            seq[i] = {"A": "C", "C": "G", "G": "T", "T": "A"}[seq[i]]
    exons = [(1001, 1200), (1501, 1700), (2001, 2300)]
    for i in range(2):  # canonical GT..AG introns
        s, e = exons[i][1] + 1, exons[i + 1][0] - 1
        seq[s - 1:s + 1] = "GT"
        seq[e - 2:e] = "AG"
    seq = "".join(seq)
    fa = os.path.join(W, "genome.fa")
    with open(fa, "w") as f:
        f.write(">chr1\n")
        for i in range(0, len(seq), 60):
            f.write(seq[i:i + 60] + "\n")
    gtf = os.path.join(W, "annot.gtf")
    with open(gtf, "w") as f:
        f.write('chr1\tt\tgene\t1001\t2300\t.\t+\t.\tgene_id "G1";\n')
        f.write('chr1\tt\ttranscript\t1001\t2300\t.\t+\t.\tgene_id "G1"; transcript_id "T1";\n')
        for s, e in exons:
            f.write('chr1\tt\texon\t%d\t%d\t.\t+\t.\tgene_id "G1"; transcript_id "T1";\n' % (s, e))

    def write_bam(name, n_reads):
        path = os.path.join(W, name)
        header = {"HD": {"VN": "1.0", "SO": "coordinate"}, "SQ": [{"SN": "chr1", "LN": len(seq)}]}
        with pysam.AlignmentFile(path, "wb", header=header) as out:
            for i in range(n_reads):
                a = pysam.AlignedSegment(out.header)
                a.query_name = "%s_read%d" % (name.split(".")[0], i)
                rs = "".join(seq[s - 1:e] for s, e in exons) + "A" * 25
                a.query_sequence = rs
                a.flag = 0
                a.reference_id = 0
                a.reference_start = exons[0][0] - 1
                a.mapping_quality = 60
                a.cigartuples = [(0, 200), (3, 300), (0, 200), (3, 300), (0, 300), (4, 25)]
                a.query_qualities = pysam.qualitystring_to_array("I" * len(rs))
                out.write(a)
        pysam.index(path)

    write_bam("a.bam", 3)
    write_bam("b.bam", 7)
    write_bam("c.bam", 2)
    return fa, gtf


def run(yaml_text, tag, fa, gtf):
    y = os.path.join(W, tag + ".yaml")
    with open(y, "w") as f:
        f.write(yaml_text)
    out = os.path.join(W, "out_" + tag)
    env = dict(os.environ, HOME=os.path.join(W, "home_" + tag), PYTHONHASHSEED="0")
    os.makedirs(env["HOME"], exist_ok=True)
    p = subprocess.run([PY, os.path.join(REPO, "isoquant.py"), "--reference", fa, "--genedb", gtf, "--complete_genedb",
                        "--yaml", y, "--data_type", "nanopore", "-o", out, "--threads", "1", "--no_gzip"],
                       env=env, stdout=subprocess.PIPE, stderr=subprocess.STDOUT, text=True)
    if p.returncode != 0:
        print(p.stdout[-3000:])
        print("IsoQuant run %s failed with code %d" % (tag, p.returncode))
    return out, p.returncode, p.stdout


def tree(d):
    res = {}
    for root, _, files in os.walk(d):
        for fn in files:
            p = os.path.join(root, fn)
            data = gzip.open(p, "rt").read() if fn.endswith(".gz") else open(p).read()
            res[os.path.relpath(p, d)] = [l for l in data.split("\n") if not l.startswith("# Command line")]
    return res


def main():
    shutil.rmtree(W, ignore_errors=True)
    os.makedirs(W)
    fa, gtf = build_inputs()
    problems = []

    # reference: the experiment "OUT2" (b.bam, 7 reads) processed on its own
    single, rc, _ = run('[ data format: "bam", {name: "OUT2", long read files: ["b.bam"]} ]', "single", fa, gtf)
    assert rc == 0
    # the same experiment together with two experiments that share the name "A"
    multi, rc, log = run('[ data format: "bam",\n'
                         '  {name: "A", long read files: ["a.bam"]},\n'
                         '  {name: "OUT2", long read files: ["b.bam"]},\n'
                         '  {name: "A", long read files: ["c.bam"]} ]', "multi", fa, gtf)
    if rc != 0:
        problems.append("multi-experiment run failed with exit code %d" % rc)
    else:
        for l in log.split("\n"):
            if "Duplicate folder prefix" in l:
                print("log:", l.strip())
        folders = sorted(x for x in os.listdir(multi) if os.path.isdir(os.path.join(multi, x)))
        print("experiment folders of the 3-experiment run:", folders)
        if len(folders) != 3:
            problems.append("3 experiments were given but only %d output folders exist: %s" % (len(folders), folders))
        a, b = tree(os.path.join(single, "OUT2")), tree(os.path.join(multi, "OUT2"))
        for k in sorted(set(a) | set(b)):
            if a.get(k) != b.get(k):
                problems.append("OUT2/%s differs from the single-experiment run" % k)
        sc = [l for l in a["OUT2.transcript_counts.tsv"] if l.startswith("T1")]
        mc = [l for l in b.get("OUT2.transcript_counts.tsv", []) if l.startswith("T1")]
        print("OUT2.transcript_counts.tsv  single run: %s   multi run: %s" % (sc, mc))
        header = open(os.path.join(multi, "combined_transcript_counts.tsv")).readline().rstrip("\n").split("\t")
        print("combined_transcript_counts.tsv header:", header)
        if header[1:].count("OUT2") != 1 or len(header) != 4:
            problems.append("combined_transcript_counts.tsv does not have one column per experiment: %s" % header)

    shutil.rmtree(W, ignore_errors=True)
    if problems:
        print("C10 VIOLATED:")
        for p in problems:
            print("  - " + p)
        sys.exit(1)
    print("no violation observed")
    sys.exit(0)


if __name__ == "__main__":
    main()
