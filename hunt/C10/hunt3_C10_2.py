#!/usr/bin/env python3
"""
C10, finding 2 (third search; contrived input, low severity): an experiment whose name equals the key column of the
count tables ("#feature_id") makes the aggregation of the combined_* tables fail.

src/stats.py:56  transform_counts() renames the value column ("count"/"TPM") of every individual table to the
experiment name; src/stats.py:64 combine_table() then merges the tables on '#feature_id'.  With an experiment called
"#feature_id" (YAML: name: "#feature_id"; list file: a line "##feature_id") its table has two columns with that label and
pandas refuses the merge ("The column label '#feature_id' is not unique"): the run ends with an error AFTER all experiments
were processed, none of the four combined_* tables is complete.  Each experiment alone runs fine, the per-experiment
folders of the joint run are complete.

exit 1 = joint run fails / combined tables missing or wrong; exit 0 = combined tables hold the individual columns.
"""
import json
import os
import random
import shutil
import subprocess
import sys

import pysam

HERE = os.path.dirname(os.path.abspath(__file__))
ISOQUANT = os.path.join(HERE, "isoquant.py")
PY = "/venv/bin/python" if os.path.exists("/venv/bin/python") else sys.executable
SCRATCH = "/tmp/hunt3scratch_C10/demo2"
ODD_NAME = "#feature_id"


def build():
    shutil.rmtree(SCRATCH, ignore_errors=True)
    os.makedirs(SCRATCH)
    rng = random.Random(5)
    seq = [rng.choice("ACGT") for _ in range(6000)]
    exons = [(1000, 1200), (1500, 1700), (2000, 2300)]
    for i in range(len(exons) - 1):
        s, e = exons[i][1] + 1, exons[i + 1][0] - 1
        seq[s - 1:s + 1] = "GT"
        seq[e - 2:e] = "AG"
    seq = "".join(seq)
    with open(os.path.join(SCRATCH, "genome.fa"), "w") as f:
        f.write(">chr1\n")
        for i in range(0, len(seq), 60):
            f.write(seq[i:i + 60] + "\n")
    with open(os.path.join(SCRATCH, "annot.gtf"), "w") as f:
        f.write('chr1\ttest\tgene\t1000\t2300\t.\t+\t.\tgene_id "G1";\n')
        f.write('chr1\ttest\ttranscript\t1000\t2300\t.\t+\t.\tgene_id "G1"; transcript_id "G1.t1";\n')
        for s, e in exons:
            f.write('chr1\ttest\texon\t%d\t%d\t.\t+\t.\tgene_id "G1"; transcript_id "G1.t1";\n' % (s, e))
    header = {"HD": {"VN": "1.0", "SO": "coordinate"}, "SQ": [{"SN": "chr1", "LN": len(seq)}]}
    for name, n in (("A", 5), ("B", 3)):
        path = os.path.join(SCRATCH, name + ".bam")
        with pysam.AlignmentFile(path, "wb", header=header) as out:
            for i in range(n):
                a = pysam.AlignedSegment()
                a.query_name = "%s_read%d" % (name, i)
                a.flag = 0
                a.reference_id = 0
                a.reference_start = exons[0][0] - 1
                a.mapping_quality = 60
                cigar, rs = [], ""
                for j, (s, e) in enumerate(exons):
                    if j:
                        cigar.append((3, s - exons[j - 1][1] - 1))
                    cigar.append((0, e - s + 1))
                    rs += seq[s - 1:e]
                cigar.append((4, 25))
                rs += "A" * 25
                a.cigartuples = cigar
                a.query_sequence = rs
                a.query_qualities = pysam.qualitystring_to_array("I" * len(rs))
                out.write(a)
        pysam.index(path)


def run(tag, experiments):
    yaml_path = os.path.join(SCRATCH, tag + ".yaml")
    items = [{"data format": "bam"}]
    for name, bam in experiments:
        items.append({"name": name, "long read files": [os.path.join(SCRATCH, bam)]})
    with open(yaml_path, "w") as f:
        json.dump(items, f)
    out = os.path.join(SCRATCH, "out_" + tag)
    env = dict(os.environ)
    env["HOME"] = os.path.join(SCRATCH, "home")
    os.makedirs(env["HOME"], exist_ok=True)
    cmd = [PY, ISOQUANT, "--reference", os.path.join(SCRATCH, "genome.fa"), "--genedb", os.path.join(SCRATCH, "annot.gtf"),
           "--complete_genedb", "--data_type", "nanopore", "--yaml", yaml_path, "-o", out, "--threads", "1", "--no_gzip"]
    p = subprocess.run(cmd, env=env, stdout=subprocess.PIPE, stderr=subprocess.STDOUT, text=True)
    return out, p


def column(path, col=1):
    res = {}
    with open(path) as f:
        for l in f:
            v = l.rstrip("\n").split("\t")
            if l.startswith("#feature_id\t") or v[0] in ("__ambiguous", "__no_feature", "__not_aligned"):
                continue
            res[v[0]] = float(v[col])
    return res


def main():
    build()
    exps = [("A", "A.bam"), (ODD_NAME, "B.bam")]
    bad = []
    for name, bam in exps:
        out, p = run("single_" + ("A" if name == "A" else "odd"), [(name, bam)])
        if p.returncode != 0 or not os.path.exists(os.path.join(out, name, name + ".gene_counts.tsv")):
            print("single run of experiment %r failed - the name is not usable at all, nothing to compare" % name)
            print(p.stdout[-1500:])
            return 2
    out, p = run("multi", exps)
    if p.returncode != 0:
        bad.append("joint run exits with code %d: %s" % (p.returncode, p.stdout.strip().split("\n")[-1]))
    for table, suffix in (("combined_gene_counts.tsv", ".gene_counts.tsv"),
                          ("combined_transcript_counts.tsv", ".transcript_counts.tsv")):
        path = os.path.join(out, table)
        if not os.path.exists(path):
            bad.append("%s was not written" % table)
            continue
        for i, (name, _) in enumerate(exps):
            ind = column(os.path.join(out, name, name + suffix))
            try:
                comb = column(path, i + 1)
            except (IndexError, ValueError):
                bad.append("%s: no readable column for experiment %r" % (table, name))
                continue
            if comb != ind:
                bad.append("%s: column of experiment %r is %s, its own table has %s" % (table, name, comb, ind))
    for name, _ in exps:
        if not os.path.exists(os.path.join(out, name, name + ".gene_counts.tsv")):
            bad.append("folder of experiment %r is incomplete" % name)
    if bad:
        print("Experiments A and %r in one invocation (each of them runs fine alone):" % ODD_NAME)
        for b in bad:
            print("  " + b)
        print("VIOLATION: the combined_* tables do not contain the per-experiment columns")
        return 1
    print("OK: combined tables contain the columns of both experiments")
    return 0


if __name__ == "__main__":
    sys.exit(main())
