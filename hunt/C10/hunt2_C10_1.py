#!/venv/bin/python
"""
C10, second pass, finding 1: a feature id that contains a double quote breaks the combined_* tables.

A GFF3 annotation may carry a double quote in an ID (the GFF3 specification reserves only tab, newline, '%', ';', '=',
'&' and ','). IsoQuant handles such ids in every per-experiment table (the id is written verbatim), but
src/stats.py reads the per-experiment tables back with pandas.read_csv and its default CSV quoting:
  * an id that STARTS with '"' opens a quoted field that runs over the following lines, so whole rows vanish and the
    values of the remaining rows are paired with the wrong / no experiment;
  * an id with an embedded '"' is re-written as "G""3" in the combined table.
So the combined_* tables do not contain the per-experiment columns of the individual tables.

The script builds a tiny genome, a GFF3 annotation (genes '"G1', 'G2', 'G"3', 'G4'), two single-file experiments A and B,
runs the unchanged IsoQuant once on the list file and compares every combined_* table with the individual tables.
Exit 1 = property violated, exit 0 = fine.
"""
import os
import random
import shutil
import subprocess
import sys

import pysam

REPO = os.path.dirname(os.path.abspath(__file__))
W = "/tmp/hunt2scratch_C10/hunt2_C10_1"
CHROMS = [("chr1", 30000), ("chr2", 20000)]
# gene id, chromosome, strand, {transcript: exons (1-based, inclusive)}
GENES = [
    ('"G1', "chr1", "+", {"T1a": [(1000, 1200), (2000, 2200), (3000, 3300)], "T1b": [(1000, 1200), (3000, 3300)]}),
    ('G2', "chr1", "-", {"T2a": [(10000, 10300), (11000, 11200), (12000, 12400)]}),
    ('G"3', "chr2", "+", {"T3a": [(5000, 6000)]}),
    ('G4', "chr2", "+", {"T4a": [(8000, 8200), (9000, 9300)]}),
]


def build_inputs():
    shutil.rmtree(W, ignore_errors=True)
    os.makedirs(W)
    rnd = random.Random(7)
    seqs = {name: [rnd.choice("ACGT") for _ in range(ln)] for name, ln in CHROMS}
    for gid, chr_id, strand, transcripts in GENES:
        for exons in transcripts.values():
            for i in range(len(exons) - 1):
                istart, iend = exons[i][1] + 1, exons[i + 1][0] - 1
                donor, acceptor = ("GT", "AG") if strand == "+" else ("CT", "AC")
                seqs[chr_id][istart - 1:istart + 1] = list(donor)
                seqs[chr_id][iend - 2:iend] = list(acceptor)
    seqs = {k: "".join(v) for k, v in seqs.items()}
    with open(os.path.join(W, "genome.fa"), "w") as f:
        for name, ln in CHROMS:
            f.write(">%s\n" % name)
            for i in range(0, ln, 60):
                f.write(seqs[name][i:i + 60] + "\n")
    with open(os.path.join(W, "annot.gff3"), "w") as f:
        f.write("##gff-version 3\n")
        for gid, chr_id, strand, transcripts in GENES:
            allex = [e for ex in transcripts.values() for e in ex]
            f.write("%s\tsrc\tgene\t%d\t%d\t.\t%s\t.\tID=%s\n" %
                    (chr_id, min(e[0] for e in allex), max(e[1] for e in allex), strand, gid))
            for tid, exons in transcripts.items():
                f.write("%s\tsrc\tmRNA\t%d\t%d\t.\t%s\t.\tID=%s;Parent=%s\n" %
                        (chr_id, exons[0][0], exons[-1][1], strand, tid, gid))
                for i, e in enumerate(exons):
                    f.write("%s\tsrc\texon\t%d\t%d\t.\t%s\t.\tID=%s.e%d;Parent=%s\n" %
                            (chr_id, e[0], e[1], strand, tid, i, tid))
    return seqs


def write_bam(path, seqs, spec, prefix, unaligned):
    chr_idx = {c[0]: i for i, c in enumerate(CHROMS)}
    structures = {tid: (chr_id, strand, exons) for _, chr_id, strand, ts in GENES for tid, exons in ts.items()}
    header = {"HD": {"VN": "1.0", "SO": "coordinate"}, "SQ": [{"SN": n, "LN": l} for n, l in CHROMS]}
    records = []
    for tid, count in spec.items():
        chr_id, strand, exons = structures[tid]
        for i in range(count):
            seq, cigar = "", []
            for j, (s, e) in enumerate(exons):
                seq += seqs[chr_id][s - 1:e]
                cigar.append((0, e - s + 1))
                if j + 1 < len(exons):
                    cigar.append((3, exons[j + 1][0] - e - 1))
            records.append((chr_idx[chr_id], exons[0][0] - 1, "%s_%s_%d" % (prefix, tid, i), seq, cigar,
                            0 if strand == "+" else 16))
    tmp = path + ".unsorted.bam"
    with pysam.AlignmentFile(tmp, "wb", header=header) as out:
        for ref_id, pos, name, seq, cigar, flag in sorted(records):
            a = pysam.AlignedSegment()
            a.query_name, a.query_sequence, a.flag = name, seq, flag
            a.reference_id, a.reference_start, a.mapping_quality, a.cigartuples = ref_id, pos, 60, cigar
            a.query_qualities = pysam.qualitystring_to_array("I" * len(seq))
            out.write(a)
        for i in range(unaligned):
            a = pysam.AlignedSegment()
            a.query_name, a.query_sequence, a.flag = "%s_un%d" % (prefix, i), "ACGTACGTAC", 4
            a.reference_id, a.reference_start = -1, -1
            a.query_qualities = pysam.qualitystring_to_array("I" * 10)
            out.write(a)
    pysam.sort("-o", path, tmp)
    os.remove(tmp)
    pysam.index(path)


def individual_column(path, kind):
    column = {}
    for line in open(path):
        v = line.rstrip("\n").split("\t")
        if line.startswith("#"):
            continue
        if kind.endswith("counts") and v[0] in ("__ambiguous", "__no_feature", "__not_aligned"):
            continue
        column[v[0]] = float(v[1])
    return column


def main():
    seqs = build_inputs()
    write_bam(os.path.join(W, "a.bam"), seqs, {"T1a": 6, "T3a": 4, "T2a": 5}, "a", 3)
    write_bam(os.path.join(W, "b.bam"), seqs, {"T1a": 4, "T1b": 5, "T4a": 3}, "b", 5)
    with open(os.path.join(W, "experiments.list"), "w") as f:
        f.write("#A\n%s\n#B\n%s\n" % (os.path.join(W, "a.bam"), os.path.join(W, "b.bam")))
    out = os.path.join(W, "out")
    env = dict(os.environ)
    env["HOME"] = os.path.join(W, "home")
    os.makedirs(env["HOME"])
    cmd = ["/venv/bin/python", os.path.join(REPO, "isoquant.py"), "--reference", os.path.join(W, "genome.fa"),
           "--genedb", os.path.join(W, "annot.gff3"), "--complete_genedb", "--data_type", "nanopore", "--no_gzip",
           "--bam_list", os.path.join(W, "experiments.list"), "--threads", "1", "-o", out]
    p = subprocess.run(cmd, env=env, stdout=subprocess.PIPE, stderr=subprocess.STDOUT, text=True)
    if p.returncode != 0:
        print(p.stdout[-3000:])
        print("IsoQuant failed, rc = %d (not the defect this script looks for)" % p.returncode)
        return 2

    problems = []
    for kind in ("gene_counts", "gene_tpm", "transcript_counts", "transcript_tpm"):
        lines = open(os.path.join(out, "combined_%s.tsv" % kind)).read().split("\n")
        header = lines[0].split("\t")
        combined = {name: {} for name in header[1:]}
        for line in lines[1:]:
            if not line:
                continue
            v = line.split("\t")
            for i, name in enumerate(header[1:]):
                value = v[i + 1] if i + 1 < len(v) else ""
                combined[name][v[0]] = value
        for name in ("A", "B"):
            individual = individual_column(os.path.join(out, name, "%s.%s.tsv" % (name, kind)), kind)
            got = combined.get(name, {})
            missing = sorted(set(individual) - set(got))
            extra = sorted(set(got) - set(individual))
            wrong = sorted(k for k in set(got) & set(individual)
                           if got[k] == "" or float(got[k]) != individual[k])
            if missing or extra or wrong:
                problems.append("combined_%s.tsv, column %s: rows missing %s, rows that are in no individual table %s, "
                                "wrong values for %s" % (kind, name, missing, extra, wrong))
    if problems:
        print("individual table A/A.gene_counts.tsv:")
        print(open(os.path.join(out, "A", "A.gene_counts.tsv")).read())
        print("individual table B/B.gene_counts.tsv:")
        print(open(os.path.join(out, "B", "B.gene_counts.tsv")).read())
        print("combined_gene_counts.tsv:")
        print(open(os.path.join(out, "combined_gene_counts.tsv")).read())
        for pr in problems:
            print("VIOLATION:", pr)
        return 1
    print("combined tables contain exactly the per-experiment columns")
    return 0


if __name__ == "__main__":
    rc = main()
    shutil.rmtree(W, ignore_errors=True)
    try:
        os.rmdir(os.path.dirname(W))  # only if nothing else is there
    except OSError:
        pass
    sys.exit(rc)
