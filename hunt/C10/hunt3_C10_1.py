#!/usr/bin/env python3
"""
C10, borderline finding 1 (third search): with --keep_tmp the saved read assignments of an experiment
(<out>/<EXP>/aux/<EXP>.save_<chr>, documented in docs/output.md and reusable through --read_assignments) depend on
the experiments that were processed before it in the same invocation.

ReadAssignment.assignment_id_generator (src/isoform_assignment.py:623) is one counter per process: with --threads 1
the ids written into the saves of the second experiment continue where the first experiment stopped, a separate run
of the second experiment starts at 1.  All final tables are identical; only the kept intermediate files differ.

exit 1 = the files of experiment B differ between "A,B in one invocation" and "B alone"; exit 0 = identical.
"""
import json
import os
import random
import shutil
import subprocess
import sys

import pysam

HERE = os.path.dirname(os.path.abspath(__file__))
ISOQUANT = os.path.join(HERE, "isoquant.py")
PY = "/venv/bin/python" if os.path.exists("/venv/bin/python") else sys.executable
SCRATCH = "/tmp/hunt3scratch_C10/demo1"


def build():
    shutil.rmtree(SCRATCH, ignore_errors=True)
    os.makedirs(SCRATCH)
    rng = random.Random(5)
    seq = [rng.choice("ACGT") for _ in range(6000)]
    exons = [(1000, 1200), (1500, 1700), (2000, 2300)]
    for i in range(len(exons) - 1):
        s, e = exons[i][1] + 1, exons[i + 1][0] - 1
        seq[s - 1:s + 1] = "GT"
        seq[e - 2:e] = "AG"
    seq = "".join(seq)
    with open(os.path.join(SCRATCH, "genome.fa"), "w") as f:
        f.write(">chr1\n")
        for i in range(0, len(seq), 60):
            f.write(seq[i:i + 60] + "\n")
    with open(os.path.join(SCRATCH, "annot.gtf"), "w") as f:
        f.write('chr1\ttest\tgene\t1000\t2300\t.\t+\t.\tgene_id "G1";\n')
        f.write('chr1\ttest\ttranscript\t1000\t2300\t.\t+\t.\tgene_id "G1"; transcript_id "G1.t1";\n')
        for s, e in exons:
            f.write('chr1\ttest\texon\t%d\t%d\t.\t+\t.\tgene_id "G1"; transcript_id "G1.t1";\n' % (s, e))
    header = {"HD": {"VN": "1.0", "SO": "coordinate"}, "SQ": [{"SN": "chr1", "LN": len(seq)}]}
    for name, n in (("A", 5), ("B", 3)):
        path = os.path.join(SCRATCH, name + ".bam")
        with pysam.AlignmentFile(path, "wb", header=header) as out:
            for i in range(n):
                a = pysam.AlignedSegment()
                a.query_name = "%s_read%d" % (name, i)
                a.flag = 0
                a.reference_id = 0
                a.reference_start = exons[0][0] - 1
                a.mapping_quality = 60
                cigar, rs = [], ""
                for j, (s, e) in enumerate(exons):
                    if j:
                        cigar.append((3, s - exons[j - 1][1] - 1))
                    cigar.append((0, e - s + 1))
                    rs += seq[s - 1:e]
                cigar.append((4, 25))
                rs += "A" * 25
                a.cigartuples = cigar
                a.query_sequence = rs
                a.query_qualities = pysam.qualitystring_to_array("I" * len(rs))
                out.write(a)
        pysam.index(path)


def run(tag, names):
    yaml_path = os.path.join(SCRATCH, tag + ".yaml")
    items = [{"data format": "bam"}]
    for n in names:
        items.append({"name": n, "long read files": [os.path.join(SCRATCH, n + ".bam")]})
    with open(yaml_path, "w") as f:
        json.dump(items, f)
    out = os.path.join(SCRATCH, "out_" + tag)
    env = dict(os.environ)
    env["HOME"] = os.path.join(SCRATCH, "home")
    os.makedirs(env["HOME"], exist_ok=True)
    cmd = [PY, ISOQUANT, "--reference", os.path.join(SCRATCH, "genome.fa"), "--genedb", os.path.join(SCRATCH, "annot.gtf"),
           "--complete_genedb", "--data_type", "nanopore", "--yaml", yaml_path, "-o", out, "--threads", "1",
           "--keep_tmp", "--no_gzip"]
    p = subprocess.run(cmd, env=env, stdout=subprocess.PIPE, stderr=subprocess.STDOUT, text=True)
    if p.returncode != 0:
        print(p.stdout[-3000:])
        print("IsoQuant failed")
        sys.exit(2)
    return out


def content(path):
    with open(path, "rb") as f:
        data = f.read()
    # the command line is written into the headers of the text outputs
    return b"\n".join(l for l in data.split(b"\n") if not l.startswith(b"# Command line:"))


def main():
    build()
    multi = os.path.join(run("multi", ["A", "B"]), "B")
    single = os.path.join(run("single", ["B"]), "B")
    files_m = sorted(os.path.relpath(os.path.join(r, f), multi) for r, _, fs in os.walk(multi) for f in fs)
    files_s = sorted(os.path.relpath(os.path.join(r, f), single) for r, _, fs in os.walk(single) for f in fs)
    bad = []
    if files_m != files_s:
        bad.append("different sets of files: %s vs %s" % (files_m, files_s))
    for f in files_m:
        if f in files_s and content(os.path.join(multi, f)) != content(os.path.join(single, f)):
            bad.append(f)
    if not bad:
        print("OK: experiment B has the same files in both runs (incl. the kept intermediate files)")
        return 0
    print("Experiment B, processed after A in one invocation vs. alone (--threads 1 --keep_tmp):")
    for b in bad:
        print("  differs: " + b)
    save = os.path.join("aux", "B.save_chr1")
    if save in bad:
        sys.path.insert(0, HERE)
        from src.assignment_io import QuickTmpFileAssignmentLoader

        def ids(path):
            loader = QuickTmpFileAssignmentLoader(path)
            res = []
            while loader.has_next():
                o = loader.get_object()
                if o is not None:
                    res.append((o.read_id, o.assignment_id))
            return res
        print("  assignment ids in B.save_chr1, after A : %s" % ids(os.path.join(multi, save)))
        print("  assignment ids in B.save_chr1, alone   : %s" % ids(os.path.join(single, save)))
    print("VIOLATION (borderline): files kept for experiment B depend on the experiment processed before it")
    return 1


if __name__ == "__main__":
    sys.exit(main())
