#!/venv/bin/python
"""
C10 hunt, finding 2: src/stats.py builds the combined_* tables with pandas.read_csv() defaults, so feature ids
that pandas regards as "missing value" markers (NA, N/A, nan, NaN, null, NULL, None, ...) are turned into NaN.
One such id -> the row loses its feature id in all four combined_* tables.
Two such ids -> pd.merge(on='#feature_id', how='outer') matches every NaN key with every NaN key, the rows are
cross-multiplied and the per-experiment columns of the combined tables no longer equal the individual tables.

Input: a valid GTF with two genes whose gene_id are "nan" (e.g. the Drosophila gene symbol nan / nanchung in
symbol-keyed GTFs) and "NA", two experiments with different read counts.

Exit code 1 (and a description) when the property is violated, 0 otherwise.
"""
import os
import random
import shutil
import subprocess
import sys

import pysam

REPO = os.path.dirname(os.path.abspath(__file__))
PY = "/venv/bin/python"
W = "/tmp/huntscratch_C10/hunt2"

GENES = {"nan": ("Tnan", [(1001, 1200), (1501, 1700), (2001, 2300)]),
         "NA": ("Tna", [(4001, 4200), (4501, 4800)]),
         "G3": ("T3", [(6001, 6200), (6501, 6800)])}


def build_inputs():
    rnd = random.Random(11)
    seq = [rnd.choice("ACGT") for _ in range(9000)]
    for i in range(3, len(seq)):
        if seq[i] == seq[i - 1] == seq[i - 2] == seq[i - 3]:
            seq[i] = {"A": "C", "C": "G", "G": "T", "T": "A"}[seq[i]]
    for gid, (tid, exons) in GENES.items():
        for i in range(len(exons) - 1):
            s, e = exons[i][1] + 1, exons[i + 1][0] - 1
            seq[s - 1:s + 1] = "GT"
            seq[e - 2:e] = "AG"
    seq = "".join(seq)
    fa = os.path.join(W, "genome.fa")
    with open(fa, "w") as f:
        f.write(">chr1\n")
        for i in range(0, len(seq), 60):
            f.write(seq[i:i + 60] + "\n")
    gtf = os.path.join(W, "annot.gtf")
    with open(gtf, "w") as f:
        for gid, (tid, exons) in GENES.items():
            f.write('chr1\tt\tgene\t%d\t%d\t.\t+\t.\tgene_id "%s";\n' % (exons[0][0], exons[-1][1], gid))
            f.write('chr1\tt\ttranscript\t%d\t%d\t.\t+\t.\tgene_id "%s"; transcript_id "%s";\n'
                    % (exons[0][0], exons[-1][1], gid, tid))
            for s, e in exons:
                f.write('chr1\tt\texon\t%d\t%d\t.\t+\t.\tgene_id "%s"; transcript_id "%s";\n' % (s, e, gid, tid))

    def write_bam(name, counts):
        path = os.path.join(W, name)
        header = {"HD": {"VN": "1.0", "SO": "coordinate"}, "SQ": [{"SN": "chr1", "LN": len(seq)}]}
        recs = []
        for gid, n in counts.items():
            exons = GENES[gid][1]
            for i in range(n):
                cigar = []
                for k, (s, e) in enumerate(exons):
                    cigar.append((0, e - s + 1))
                    if k + 1 < len(exons):
                        cigar.append((3, exons[k + 1][0] - e - 1))
                cigar.append((4, 25))
                rs = "".join(seq[s - 1:e] for s, e in exons) + "A" * 25
                recs.append((exons[0][0] - 1, "%s_%s_%d" % (name.split(".")[0], GENES[gid][0], i), rs, cigar))
        recs.sort()
        with pysam.AlignmentFile(path, "wb", header=header) as out:
            for start, qn, rs, cigar in recs:
                a = pysam.AlignedSegment(out.header)
                a.query_name = qn
                a.query_sequence = rs
                a.flag = 0
                a.reference_id = 0
                a.reference_start = start
                a.mapping_quality = 60
                a.cigartuples = cigar
                a.query_qualities = pysam.qualitystring_to_array("I" * len(rs))
                out.write(a)
        pysam.index(path)

    write_bam("a.bam", {"nan": 5, "NA": 2, "G3": 3})
    write_bam("b.bam", {"nan": 1, "NA": 4, "G3": 6})
    return fa, gtf


def read_table(path):
    lines = [l.rstrip("\n").split("\t") for l in open(path) if l.strip("\n")]
    return lines[0], lines[1:]


def main():
    shutil.rmtree(W, ignore_errors=True)
    os.makedirs(W)
    fa, gtf = build_inputs()
    y = os.path.join(W, "exp.yaml")
    with open(y, "w") as f:
        f.write('[ data format: "bam",\n  {name: "E1", long read files: ["a.bam"]},\n'
                '  {name: "E2", long read files: ["b.bam"]} ]\n')
    out = os.path.join(W, "out")
    env = dict(os.environ, HOME=os.path.join(W, "home"), PYTHONHASHSEED="0")
    os.makedirs(env["HOME"], exist_ok=True)
    p = subprocess.run([PY, os.path.join(REPO, "isoquant.py"), "--reference", fa, "--genedb", gtf, "--complete_genedb",
                        "--yaml", y, "--data_type", "nanopore", "-o", out, "--threads", "1", "--no_gzip"],
                       env=env, stdout=subprocess.PIPE, stderr=subprocess.STDOUT, text=True)
    problems = []
    if p.returncode != 0:
        print(p.stdout[-3000:])
        problems.append("IsoQuant failed with exit code %d" % p.returncode)
    else:
        for feat in ("gene", "transcript"):
            for kind in ("counts", "tpm"):
                cname = "combined_%s_%s.tsv" % (feat, kind)
                header, rows = read_table(os.path.join(out, cname))
                if feat == "gene" and kind == "counts":
                    print(cname + ":")
                    print("\n".join("    " + "\t".join(r) for r in [header] + rows))
                for col, exp in enumerate(header[1:], 1):
                    _, irows = read_table(os.path.join(out, exp, "%s.%s_%s.tsv" % (exp, feat, kind)))
                    if kind == "counts":
                        irows = [r for r in irows if not r[0].startswith("__")]
                    individual = sorted((r[0], float(r[1])) for r in irows)
                    combined = sorted((r[0], float(r[col])) for r in rows)
                    if individual != combined:
                        problems.append("%s, column %s: %s   but %s.%s_%s.tsv has %s"
                                        % (cname, exp, combined, exp, feat, kind, individual))

    shutil.rmtree(W, ignore_errors=True)
    if problems:
        print("C10 VIOLATED (combined tables do not contain exactly the per-experiment columns):")
        for pr in problems:
            print("  - " + pr)
        sys.exit(1)
    print("no violation observed")
    sys.exit(0)


if __name__ == "__main__":
    main()
