"""Shared helpers of the hunt_C14_<n>.py demonstration scripts (synthetic FASTA / GTF / BAM, running IsoQuant,
parsing corrected_reads.bed). Nothing here touches the IsoQuant sources."""
import os
import random
import shutil
import subprocess
import sys

import pysam

REPO = os.path.dirname(os.path.abspath(__file__))
SCRATCH_ROOT = "/tmp/huntscratch_C14"
CHR = "chr1"


def scratch(name):
    wd = os.path.join(SCRATCH_ROOT, name)
    if os.path.exists(wd):
        shutil.rmtree(wd)
    os.makedirs(wd)
    return wd


def cleanup(wd):
    shutil.rmtree(wd, ignore_errors=True)
    try:
        os.rmdir(SCRATCH_ROOT)   # only succeeds when empty
    except OSError:
        pass


def make_genome(length, introns_plus=(), seed=1):
    """random sequence without homopolymer runs >2; GT..AG is planted at the given 1-based inclusive introns"""
    rnd = random.Random(seed)
    seq = []
    for _ in range(length):
        c = rnd.choice("ACGT")
        while len(seq) >= 2 and seq[-1] == c and seq[-2] == c:
            c = rnd.choice("ACGT")
        seq.append(c)
    for (s, e) in introns_plus:
        seq[s - 1:s + 1] = list("GT")
        seq[e - 2:e] = list("AG")
    return "".join(seq)


def write_fasta(path, seq):
    with open(path, "w") as f:
        f.write(">%s\n" % CHR)
        for i in range(0, len(seq), 60):
            f.write(seq[i:i + 60] + "\n")


def write_gtf(path, genes):
    """genes: list of (gene_id, strand, [(transcript_id, [(start, end), ...])]), 1-based inclusive exons"""
    with open(path, "w") as f:
        for gid, strand, transcripts in genes:
            gs = min(e[0] for _, ex in transcripts for e in ex)
            ge = max(e[1] for _, ex in transcripts for e in ex)
            f.write('%s\tsrc\tgene\t%d\t%d\t.\t%s\t.\tgene_id "%s";\n' % (CHR, gs, ge, strand, gid))
            for tid, exons in transcripts:
                f.write('%s\tsrc\ttranscript\t%d\t%d\t.\t%s\t.\tgene_id "%s"; transcript_id "%s";\n' %
                        (CHR, exons[0][0], exons[-1][1], strand, gid, tid))
                for (s, e) in exons:
                    f.write('%s\tsrc\texon\t%d\t%d\t.\t%s\t.\tgene_id "%s"; transcript_id "%s";\n' %
                            (CHR, s, e, strand, gid, tid))


def read_from_exons(name, exons, genome, mods=None, tail=None):
    """alignment with M blocks = exons (1-based inclusive) separated by N; the read sequence is the reference
    sequence (mods: 1-based position -> substituted base); tail: soft-clipped 3' sequence (polyA)"""
    cig, seq = [], []
    for i, (s, e) in enumerate(exons):
        if i > 0:
            cig.append((3, s - exons[i - 1][1] - 1))
        cig.append((0, e - s + 1))
        sub = list(genome[s - 1:e])
        for p, b in (mods or {}).items():
            if s <= p <= e:
                sub[p - s] = b
        seq.append("".join(sub))
    if tail:
        cig.append((4, len(tail)))
        seq.append(tail)
    return dict(name=name, start=exons[0][0] - 1, cigar=cig, seq="".join(seq))


def write_bam(path, reads, genome_len):
    header = {"HD": {"VN": "1.0", "SO": "coordinate"}, "SQ": [{"SN": CHR, "LN": genome_len}]}
    with pysam.AlignmentFile(path, "wb", header=header) as out:
        for r in sorted(reads, key=lambda x: x["start"]):
            a = pysam.AlignedSegment()
            a.query_name = r["name"]
            a.query_sequence = r["seq"]
            a.flag = 0
            a.reference_id = 0
            a.reference_start = r["start"]
            a.mapping_quality = 60
            a.cigartuples = r["cigar"]
            a.query_qualities = pysam.qualitystring_to_array("I" * len(r["seq"]))
            out.write(a)
    pysam.index(path)


def run_isoquant(wd, extra=()):
    out = os.path.join(wd, "out")
    shutil.rmtree(out, ignore_errors=True)
    home = os.path.join(wd, "home")
    os.makedirs(home, exist_ok=True)
    cmd = ["/venv/bin/python" if os.path.exists("/venv/bin/python") else sys.executable, os.path.join(REPO, "isoquant.py"),
           "--reference", os.path.join(wd, "genome.fa"),
           "--genedb", os.path.join(wd, "annot.gtf"), "--complete_genedb",
           "--bam", os.path.join(wd, "reads.bam"), "--data_type", "nanopore",
           "-o", out, "--threads", "1", "--no_gzip"] + list(extra)
    p = subprocess.run(cmd, env=dict(os.environ, HOME=home), stdout=subprocess.PIPE, stderr=subprocess.STDOUT,
                       text=True, timeout=300)
    if p.returncode != 0:
        print(p.stdout[-3000:])
        raise RuntimeError("IsoQuant failed with exit code %d" % p.returncode)
    return os.path.join(out, "OUT", "OUT")   # prefix of the output files


def parse_bed(path):
    recs = {}
    with open(path) as f:
        for line in f:
            if line.startswith("#") or not line.strip():
                continue
            t = line.rstrip("\n").split("\t")
            recs[t[3]] = dict(start=int(t[1]), end=int(t[2]), n=int(t[9]),
                              sizes=[int(x) for x in t[10].split(",") if x != ""],
                              starts=[int(x) for x in t[11].split(",") if x != ""], raw=line.rstrip("\n"))
    return recs


def bed_problems(rec, chrom_len):
    """BED12 well-formedness clauses of property C14"""
    pr = []
    if rec["n"] != len(rec["sizes"]) or rec["n"] != len(rec["starts"]):
        pr.append("blockCount does not match the block lists")
    if any(s <= 0 for s in rec["sizes"]):
        pr.append("non-positive block size(s) %s" % rec["sizes"])
    if any(s < 0 for s in rec["starts"]):
        pr.append("negative blockStart(s) %s (block lies before chromStart)" % rec["starts"])
    if rec["starts"] and rec["starts"][0] != 0:
        pr.append("first block does not start at chromStart")
    for i in range(1, len(rec["starts"])):
        if rec["starts"][i] < rec["starts"][i - 1] + rec["sizes"][i - 1]:
            pr.append("block %d starts (%d) before the previous block ends (%d)" %
                      (i, rec["starts"][i], rec["starts"][i - 1] + rec["sizes"][i - 1]))
    if rec["starts"] and rec["start"] + rec["starts"][-1] + rec["sizes"][-1] != rec["end"]:
        pr.append("last block does not end at chromEnd")
    if rec["start"] < 0 or rec["end"] > chrom_len:
        pr.append("coordinates outside the chromosome")
    return pr


def bed_exons(rec):
    """1-based inclusive blocks of a BED12 record"""
    return [(rec["start"] + s + 1, rec["start"] + s + l) for s, l in zip(rec["starts"], rec["sizes"])]


# ---------------------------------------------------------------------------------------------------------------
# Finding 3: fuzzy-junction correction can move a splice site beyond the end (or start) of the read.
# The read's last exon is only 3-4 bp long and was placed by the aligner just in front of the annotated acceptor
# (inside the annotated intron, <= delta away from it); the read has a soft-clipped polyA tail and NO sequencing errors.
# ExonCorrector.process_events replaces the read's acceptor by the annotated one (AlignmentInfo.get_error_count counts
# the soft-clipped tail bases as insertions, so the "alignment is unreliable" test fires), and correct_assigned_read
# then builds the last block as (annotated_acceptor + 1, read_end) without checking that it is not empty:
# block size 0 or negative.  The same happens to a short first exon when it has 2 mismatches / an indel.
# ---------------------------------------------------------------------------------------------------------------
def main():
    wd = scratch("hunt3")
    L = 5000
    genome = make_genome(L, introns_plus=[(1501, 2000), (2301, 2800)])
    write_fasta(wd + "/genome.fa", genome)
    write_gtf(wd + "/annot.gtf", [("G1", "+", [("T1", [(1000, 1500), (2001, 2300), (2801, 3300)])])])
    polya = "A" * 25

    def other(pos):
        return "A" if genome[pos - 1] != "A" else "C"

    inputs = {
        # last exon 2797-2800 / 2796-2798 lies inside the annotated intron 2301-2800, polyA tail, error-free
        "r_last4_polyA": dict(exons=[(1100, 1500), (2001, 2300), (2797, 2800)], tail=polya),
        "r_last3_polyA": dict(exons=[(1100, 1500), (2001, 2300), (2796, 2798)], tail=polya),
        # first exon 1501-1505 lies inside the annotated intron 1501-2000 and carries two mismatches
        "r_first5_mm": dict(exons=[(1501, 1505), (2001, 2300), (2801, 3100)], mods={1502: other(1502), 1504: other(1504)}),
        "r_plain": dict(exons=[(1100, 1500), (2001, 2300), (2801, 3100)], tail=polya),
    }
    write_bam(wd + "/reads.bam", [read_from_exons(n, d["exons"], genome, mods=d.get("mods"), tail=d.get("tail"))
                                  for n, d in inputs.items()], L)
    bad = []
    for strategy in ("default_ont", "conservative_ont", "default_pacbio"):
        out = run_isoquant(wd, ["--splice_correction_strategy", strategy])
        bed = parse_bed(out + ".corrected_reads.bed")
        for name, d in inputs.items():
            rec = bed[name]
            print("[%s] %s input %s" % (strategy, name, d["exons"]))
            print("      BED: " + rec["raw"])
            for p in bed_problems(rec, L):
                print("      VIOLATION: " + p)
                bad.append((strategy, name, p))
    cleanup(wd)
    if bad:
        print("C14 violated: %d malformed BED12 records (zero / negative block sizes) in corrected_reads.bed" % len(bad))
        return 1
    print("no violation observed")
    return 0


if __name__ == "__main__":
    sys.exit(main())
