#!/venv/bin/python
"""
hunt2 C14 #2: when two consecutive introns of the corrected intron list touch or overlap, ExonCorrector silently
drops the read block between them and glues the two introns into one junction that is neither a junction of the
read, nor an annotated intron, nor an intron of the assigned isoform.

Case A (--splice_correction_strategy all): the terminal-exon correction inserts the first intron of the isoform,
   which ends right where the next intron of the read begins.
Case B (default strategy for nanopore, no extra option): both neighbours of a 6-bp exon are moved by the fuzzy
   junction correction onto annotated introns (of two other isoforms) that overlap each other by 3 bp; the read is a
   full splice match of its isoform and loses the exon.
Case C (default strategy, one isoform only): the acceptor site of a noisy junction is moved 6 bp (= delta) onto the
   annotated one, past the end of the 5-bp block that follows it; the block is swallowed and the junction is glued
   to the next (spurious, 25 bp) gap of the read: 8201-8529 instead of the annotated 8201-8505.

Builds a tiny genome / annotation / BAM, runs the unchanged isoquant.py and checks every record of
OUT.corrected_reads.bed: every junction of the corrected alignment must correspond (both ends within 12 bp,
i.e. 2 * delta) to a junction of the input alignment or to an annotated intron (a junction that was really moved
onto an annotated intron or restored from the isoform coincides with that intron), and no internal block of the
read may disappear.
Exit code 1 (and a description) if the property is violated, 0 otherwise.
"""
import os
import random
import shutil
import subprocess
import sys

import pysam

REPO = os.path.dirname(os.path.abspath(__file__))
WORK = "/tmp/hunt2scratch_C14/demo_hunt2_C14_2"
PY = sys.executable if os.path.exists(sys.executable) else "/venv/bin/python"
TOLERANCE = 12

GENES = [
    # case A
    ("GA", [("GA.T1", [(1001, 1010), (1201, 1207), (1601, 1800), (2001, 2200)])]),
    # case B: GB.T3 is the isoform of the read; the introns 5201-5403 (GB.T1) and 5401-6000 (GB.T2) overlap
    ("GB", [("GB.T1", [(5001, 5200), (5404, 5600), (6001, 6200)]),
            ("GB.T2", [(5001, 5200), (5301, 5400), (6001, 6200)]),
            ("GB.T3", [(5001, 5200), (5405, 5411), (6001, 6200)])]),
    # case C: a single isoform
    ("GC", [("GC.T1", [(8001, 8200), (8506, 8700), (9001, 9200)])]),
]


def introns_of(exons):
    return [(exons[i][1] + 1, exons[i + 1][0] - 1) for i in range(len(exons) - 1)]


def build_inputs():
    rnd = random.Random(2)
    length = 10000
    seq = list("".join(rnd.choice("CGT") + rnd.choice("ACGT") for _ in range(length // 2)))
    for gid, isoforms in GENES:
        for tid, exons in isoforms:
            for il, ir in introns_of(exons):
                seq[il - 1:il + 1] = "GT"
                seq[ir - 2:ir] = "AG"
    seq = "".join(seq)
    os.makedirs(WORK)
    fa = os.path.join(WORK, "genome.fa")
    with open(fa, "w") as f:
        f.write(">chr1\n")
        for i in range(0, len(seq), 60):
            f.write(seq[i:i + 60] + "\n")
    gtf = os.path.join(WORK, "annot.gtf")
    with open(gtf, "w") as f:
        for gid, isoforms in GENES:
            gs = min(e[0][0] for _, e in isoforms)
            ge = max(e[-1][1] for _, e in isoforms)
            f.write('chr1\tsrc\tgene\t%d\t%d\t.\t+\t.\tgene_id "%s";\n' % (gs, ge, gid))
            for tid, exons in isoforms:
                f.write('chr1\tsrc\ttranscript\t%d\t%d\t.\t+\t.\tgene_id "%s"; transcript_id "%s";\n' %
                        (exons[0][0], exons[-1][1], gid, tid))
                for s, e in exons:
                    f.write('chr1\tsrc\texon\t%d\t%d\t.\t+\t.\tgene_id "%s"; transcript_id "%s";\n' % (s, e, gid, tid))

    def read(name, exons, mismatches=()):
        cigar = []
        s = ""
        for i, (a, b) in enumerate(exons):
            if i:
                cigar.append((3, a - exons[i - 1][1] - 1))
            cigar.append((0, b - a + 1))
            frag = list(seq[a - 1:b])
            for p in mismatches:
                if a <= p <= b:
                    frag[p - a] = "A" if frag[p - a] != "A" else "C"
            s += "".join(frag)
        return name, exons, cigar, s

    reads = [
        # A: the first exon is 10 bp too long and 10 bases of the read sit right in front of the micro exon 1201-1207
        read("caseA_terminal_exon", [(1001, 1020), (1191, 1200), (1601, 1800), (2001, 2200)]),
        # B: noisy read of GB.T3 (all junctions within delta = 6 of GB.T3), sequencing errors in the 6-bp exon
        read("caseB_fsm_micro_exon", [(5001, 5200), (5400, 5405), (6001, 6200)],
             mismatches=(5400, 5401, 5402, 5403, 5404, 5405)),
        # C: 5 bases of the second exon are placed 6 bp upstream of it and are followed by a spurious 25-bp gap
        read("caseC_noisy_exon_start", [(8001, 8200), (8500, 8504), (8530, 8700), (9001, 9200)],
             mismatches=(8500, 8502, 8504)),
    ]
    bam = os.path.join(WORK, "reads.bam")
    header = {"HD": {"VN": "1.0", "SO": "coordinate"}, "SQ": [{"SN": "chr1", "LN": len(seq)}]}
    with pysam.AlignmentFile(bam, "wb", header=header) as out:
        for name, exons, cigar, s in sorted(reads, key=lambda r: r[1][0][0]):
            a = pysam.AlignedSegment(out.header)
            a.query_name = name
            a.query_sequence = s
            a.flag = 0
            a.reference_id = 0
            a.reference_start = exons[0][0] - 1
            a.mapping_quality = 60
            a.cigartuples = cigar
            a.query_qualities = pysam.qualitystring_to_array("I" * len(s))
            out.write(a)
    pysam.index(bam)
    return fa, gtf, bam, {r[0]: r[1] for r in reads}


def bed_blocks(path):
    res = {}
    with open(path) as f:
        for line in f:
            if line.startswith("#"):
                continue
            t = line.rstrip("\n").split("\t")
            start = int(t[1])
            sizes = [int(x) for x in t[10].split(",")]
            starts = [int(x) for x in t[11].split(",")]
            res[t[3]] = [(start + st + 1, start + st + sz) for st, sz in zip(starts, sizes)]
    return res


def assigned(path):
    res = {}
    with open(path) as f:
        for line in f:
            if not line.startswith("#"):
                t = line.split("\t")
                res.setdefault(t[0], []).append("%s (%s; %s)" % (t[3], t[5], t[6]))
    return res


def main():
    shutil.rmtree(WORK, ignore_errors=True)
    fa, gtf, bam, original = build_inputs()
    home = os.path.join(WORK, "home")
    os.makedirs(home)
    env = dict(os.environ, HOME=home)
    annotated = set()
    for gid, isoforms in GENES:
        for tid, exons in isoforms:
            annotated.update(introns_of(exons))
    problems = []
    for label, options in (("default strategy", []), ("all", ["--splice_correction_strategy", "all"])):
        out = os.path.join(WORK, "out_" + label.split()[0])
        cmd = [PY, os.path.join(REPO, "isoquant.py"), "--reference", fa, "--genedb", gtf, "--complete_genedb",
               "--bam", bam, "--data_type", "nanopore", "-o", out, "--threads", "1", "--no_gzip"] + options
        p = subprocess.run(cmd, env=env, stdout=subprocess.PIPE, stderr=subprocess.STDOUT, text=True)
        if p.returncode != 0:
            print(p.stdout[-3000:])
            print("IsoQuant failed")
            return 2
        corrected = bed_blocks(os.path.join(out, "OUT", "OUT.corrected_reads.bed"))
        isoform = assigned(os.path.join(out, "OUT", "OUT.read_assignments.tsv"))
        for name in sorted(original):
            if name not in corrected:
                continue
            own = introns_of(original[name])
            for (l, r) in introns_of(corrected[name]):
                if not any(abs(l - a) <= TOLERANCE and abs(r - b) <= TOLERANCE for a, b in own + sorted(annotated)):
                    problems.append("[%s] read %s assigned to %s:\n    junction %d-%d of the corrected alignment is neither "
                                    "a junction of the read nor an annotated intron (within %d bp)\n"
                                    "    input     %s\n    corrected %s" %
                                    (label, name, ", ".join(isoform.get(name, ["?"])), l, r, TOLERANCE,
                                     original[name], corrected[name]))
            lost = [e for e in original[name][1:-1] if not any(e[0] <= c[1] and c[0] <= e[1] for c in corrected[name])]
            if lost:
                problems.append("[%s] read %s: internal block(s) %s of the read disappeared" % (label, name, lost))
    shutil.rmtree(WORK, ignore_errors=True)
    if problems:
        print("C14 violated: touching / overlapping corrected introns are glued into a junction that nobody supports")
        for pr in problems:
            print("  " + pr)
        return 1
    print("OK")
    return 0


if __name__ == "__main__":
    sys.exit(main())
