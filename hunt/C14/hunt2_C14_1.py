#!/venv/bin/python
"""
hunt2 C14 #1: terminal exons that look like an aligned poly-A tail are removed from corrected_reads.bed
whatever the splice correction strategy is -- also with --splice_correction_strategy none, where the
corrected alignment must equal the input alignment, and with conservative_ont, which enables no terminal-exon
correction at all (the read end may not move).

Builds a tiny genome / annotation / BAM, runs the unchanged isoquant.py and compares every record of
OUT.corrected_reads.bed with the blocks of the input alignment.
Exit code 1 (and a description) if the property is violated, 0 otherwise.
"""
import os
import random
import shutil
import subprocess
import sys

import pysam

REPO = os.path.dirname(os.path.abspath(__file__))
WORK = "/tmp/hunt2scratch_C14/demo_hunt2_C14_1"
PY = sys.executable if os.path.exists(sys.executable) else "/venv/bin/python"


def build_inputs():
    rnd = random.Random(5)
    length = 20000
    seq = [rnd.choice("CGT") + rnd.choice("ACGT") for _ in range(length // 2)]
    seq = list("".join(seq))
    # gene G1 (+): the annotated last exon 4001-4024 is a genuine, A-rich 3' exon
    g1 = [(1001, 1300), (2001, 2200), (3001, 3400), (4001, 4024)]
    # gene G2 (+): ordinary last exon; 600 bp downstream there is a genomic A stretch (8001-8030)
    g2 = [(5001, 5300), (6001, 6200), (7001, 7400)]
    seq[4000:4024] = "AAAAAAAAAAAAGAAAAAAAAAAA"
    seq[8000:8030] = "A" * 30
    for exons in (g1, g2):
        for i in range(len(exons) - 1):
            il, ir = exons[i][1] + 1, exons[i + 1][0] - 1
            seq[il - 1:il + 1] = "GT"
            seq[ir - 2:ir] = "AG"
    seq = "".join(seq)
    os.makedirs(WORK)
    fa = os.path.join(WORK, "genome.fa")
    with open(fa, "w") as f:
        f.write(">chr1\n")
        for i in range(0, len(seq), 60):
            f.write(seq[i:i + 60] + "\n")
    gtf = os.path.join(WORK, "annot.gtf")
    with open(gtf, "w") as f:
        for gid, exons in (("G1", g1), ("G2", g2)):
            f.write('chr1\tsrc\tgene\t%d\t%d\t.\t+\t.\tgene_id "%s";\n' % (exons[0][0], exons[-1][1], gid))
            f.write('chr1\tsrc\ttranscript\t%d\t%d\t.\t+\t.\tgene_id "%s"; transcript_id "%s.T1";\n' %
                    (exons[0][0], exons[-1][1], gid, gid))
            for s, e in exons:
                f.write('chr1\tsrc\texon\t%d\t%d\t.\t+\t.\tgene_id "%s"; transcript_id "%s.T1";\n' % (s, e, gid, gid))

    def read(name, exons, tail):
        cigar = []
        s = ""
        for i, (a, b) in enumerate(exons):
            if i:
                cigar.append((3, a - exons[i - 1][1] - 1))
            cigar.append((0, b - a + 1))
            s += seq[a - 1:b]
        if tail:
            s += "A" * tail
            cigar.append((4, tail))
        return name, exons, cigar, s

    reads = [
        # full splice match of G1.T1, every base identical to the reference, soft-clipped poly-A tail
        read("annotated_A_rich_last_exon", [(1101, 1300), (2001, 2200), (3001, 3400), (4001, 4024)], 20),
        # read of G2.T1 whose poly-A tail was aligned by the mapper as an extra exon onto the downstream A stretch
        read("polyA_tail_aligned_as_exon", [(5101, 5300), (6001, 6200), (7001, 7400), (8001, 8025)], 0),
        # control: ordinary read with a clipped tail
        read("control", [(5101, 5300), (6001, 6200), (7001, 7400)], 20),
    ]
    bam = os.path.join(WORK, "reads.bam")
    header = {"HD": {"VN": "1.0", "SO": "coordinate"}, "SQ": [{"SN": "chr1", "LN": len(seq)}]}
    with pysam.AlignmentFile(bam, "wb", header=header) as out:
        for name, exons, cigar, s in sorted(reads, key=lambda r: r[1][0][0]):
            a = pysam.AlignedSegment(out.header)
            a.query_name = name
            a.query_sequence = s
            a.flag = 0
            a.reference_id = 0
            a.reference_start = exons[0][0] - 1
            a.mapping_quality = 60
            a.cigartuples = cigar
            a.query_qualities = pysam.qualitystring_to_array("I" * len(s))
            out.write(a)
    pysam.index(bam)
    return fa, gtf, bam


def input_blocks(bam):
    res = {}
    with pysam.AlignmentFile(bam, "rb") as f:
        for a in f:
            # reference blocks of the alignment, 1-based closed
            res[a.query_name] = [(s + 1, e) for s, e in a.get_blocks()]
    return res


def bed_blocks(path):
    res = {}
    with open(path) as f:
        for line in f:
            if line.startswith("#"):
                continue
            t = line.rstrip("\n").split("\t")
            start = int(t[1])
            sizes = [int(x) for x in t[10].split(",")]
            starts = [int(x) for x in t[11].split(",")]
            res[t[3]] = [(start + st + 1, start + st + sz) for st, sz in zip(starts, sizes)]
    return res


def main():
    shutil.rmtree(WORK, ignore_errors=True)
    fa, gtf, bam = build_inputs()
    home = os.path.join(WORK, "home")
    os.makedirs(home)
    env = dict(os.environ, HOME=home)
    original = input_blocks(bam)
    problems = []
    for strategy in ("none", "conservative_ont"):
        out = os.path.join(WORK, "out_" + strategy)
        cmd = [PY, os.path.join(REPO, "isoquant.py"), "--reference", fa, "--genedb", gtf, "--complete_genedb",
               "--bam", bam, "--data_type", "nanopore", "-o", out, "--threads", "1", "--no_gzip",
               "--splice_correction_strategy", strategy]
        p = subprocess.run(cmd, env=env, stdout=subprocess.PIPE, stderr=subprocess.STDOUT, text=True)
        if p.returncode != 0:
            print(p.stdout[-3000:])
            print("IsoQuant failed")
            return 2
        corrected = bed_blocks(os.path.join(out, "OUT", "OUT.corrected_reads.bed"))
        for name in sorted(original):
            if name not in corrected:
                continue
            if corrected[name] != original[name]:
                what = "corrected alignment differs from the input alignment" if strategy == "none" else \
                    "read end moved although the strategy enables no terminal-exon correction"
                problems.append("--splice_correction_strategy %s, read %s: %s\n    input     %s\n    corrected %s" %
                                (strategy, name, what, original[name], corrected[name]))
    shutil.rmtree(WORK, ignore_errors=True)
    if problems:
        print("C14 violated: terminal exons taken for an aligned poly-A tail are dropped from corrected_reads.bed")
        for pr in problems:
            print("  " + pr)
        return 1
    print("OK: corrected alignments equal the input alignments")
    return 0


if __name__ == "__main__":
    sys.exit(main())
