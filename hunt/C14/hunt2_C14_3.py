#!/venv/bin/python
"""
hunt2 C14 #3: the short-read correction (--illumina_bam, applied to reads outside annotated genes / in the
annotation-free mode) moves one junction of the long read onto a short-read junction that now touches the next
junction of the read; the block between them (an internal exon of a few bases) is silently dropped and the two
introns are glued into a junction that is supported neither by the long read nor by the short reads.

True structure (as the short reads show it): exons ..-1200, 1505-1530, 1801-..
Long read: ..-1200, 1501-1504 (4 misplaced bases of the micro exon), 1801-..
Expected: either (1201-1504, 1531-1800) or the unchanged read.  Observed: one junction 1201-1800.

Builds a tiny genome and two BAM files, runs the unchanged isoquant.py without annotation and checks that every
junction of OUT.corrected_reads.bed is a junction of the input alignment or a junction of the short reads and that
no internal block of the read disappears.
Exit code 1 (and a description) if the property is violated, 0 otherwise.
"""
import os
import random
import shutil
import subprocess
import sys

import pysam

REPO = os.path.dirname(os.path.abspath(__file__))
WORK = "/tmp/hunt2scratch_C14/demo_hunt2_C14_3"
PY = sys.executable if os.path.exists(sys.executable) else "/venv/bin/python"


def introns_of(exons):
    return [(exons[i][1] + 1, exons[i + 1][0] - 1) for i in range(len(exons) - 1)]


def write_bam(path, length, reads, seq):
    header = {"HD": {"VN": "1.0", "SO": "coordinate"}, "SQ": [{"SN": "chr1", "LN": length}]}
    with pysam.AlignmentFile(path, "wb", header=header) as out:
        for name, exons in sorted(reads, key=lambda r: r[1][0][0]):
            cigar = []
            s = ""
            for i, (a, b) in enumerate(exons):
                if i:
                    cigar.append((3, a - exons[i - 1][1] - 1))
                cigar.append((0, b - a + 1))
                s += seq[a - 1:b]
            a = pysam.AlignedSegment(out.header)
            a.query_name = name
            a.query_sequence = s
            a.flag = 0
            a.reference_id = 0
            a.reference_start = exons[0][0] - 1
            a.mapping_quality = 60
            a.cigartuples = cigar
            a.query_qualities = pysam.qualitystring_to_array("I" * len(s))
            out.write(a)
    pysam.index(path)


def bed_blocks(path):
    res = {}
    with open(path) as f:
        for line in f:
            if line.startswith("#"):
                continue
            t = line.rstrip("\n").split("\t")
            start = int(t[1])
            sizes = [int(x) for x in t[10].split(",")]
            starts = [int(x) for x in t[11].split(",")]
            res[t[3]] = [(start + st + 1, start + st + sz) for st, sz in zip(starts, sizes)]
    return res


def main():
    shutil.rmtree(WORK, ignore_errors=True)
    os.makedirs(WORK)
    rnd = random.Random(4)
    length = 6000
    seq = list("".join(rnd.choice("CGT") + rnd.choice("ACGT") for _ in range(length // 2)))
    for il, ir in ((1201, 1504), (1531, 1800)):
        seq[il - 1:il + 1] = "GT"
        seq[ir - 2:ir] = "AG"
    seq = "".join(seq)
    fa = os.path.join(WORK, "genome.fa")
    with open(fa, "w") as f:
        f.write(">chr1\n")
        for i in range(0, len(seq), 60):
            f.write(seq[i:i + 60] + "\n")
    long_reads = [("long_read_%d" % i, [(1001 + i, 1200), (1501, 1504), (1801, 2000 - i)]) for i in range(3)]
    short_reads = [("short_%d" % i, [(1151 + i, 1200), (1505, 1530), (1801, 1850 + i)]) for i in range(5)]
    lbam = os.path.join(WORK, "long.bam")
    sbam = os.path.join(WORK, "short.bam")
    write_bam(lbam, length, long_reads, seq)
    write_bam(sbam, length, short_reads, seq)
    short_junctions = set()
    for _, exons in short_reads:
        short_junctions.update(introns_of(exons))
    home = os.path.join(WORK, "home")
    os.makedirs(home)
    out = os.path.join(WORK, "out")
    cmd = [PY, os.path.join(REPO, "isoquant.py"), "--reference", fa, "--bam", lbam, "--illumina_bam", sbam,
           "--data_type", "nanopore", "-o", out, "--threads", "1", "--no_gzip"]
    p = subprocess.run(cmd, env=dict(os.environ, HOME=home), stdout=subprocess.PIPE, stderr=subprocess.STDOUT, text=True)
    if p.returncode != 0:
        print(p.stdout[-3000:])
        print("IsoQuant failed")
        return 2
    corrected = bed_blocks(os.path.join(out, "OUT", "OUT.corrected_reads.bed"))
    problems = []
    for name, exons in long_reads:
        if name not in corrected:
            continue
        own = set(introns_of(exons))
        for j in introns_of(corrected[name]):
            if j not in own and j not in short_junctions:
                problems.append("read %s: junction %d-%d of the corrected alignment is neither a junction of the read %s "
                                "nor a junction of the short reads %s\n    input     %s\n    corrected %s" %
                                (name, j[0], j[1], sorted(own), sorted(short_junctions), exons, corrected[name]))
        lost = [e for e in exons[1:-1] if not any(e[0] <= c[1] and c[0] <= e[1] for c in corrected[name])]
        if lost:
            problems.append("read %s: internal block(s) %s of the read disappeared" % (name, lost))
    shutil.rmtree(WORK, ignore_errors=True)
    if not corrected:
        print("no records in corrected_reads.bed")
        return 2
    if problems:
        print("C14 violated: the short-read correction glues two touching introns into an unsupported junction")
        for pr in problems:
            print("  " + pr)
        return 1
    print("OK")
    return 0


if __name__ == "__main__":
    sys.exit(main())
