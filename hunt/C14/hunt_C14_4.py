"""Shared helpers of the hunt_C14_<n>.py demonstration scripts (synthetic FASTA / GTF / BAM, running IsoQuant,
parsing corrected_reads.bed). Nothing here touches the IsoQuant sources."""
import os
import random
import shutil
import subprocess
import sys

import pysam

REPO = os.path.dirname(os.path.abspath(__file__))
SCRATCH_ROOT = "/tmp/huntscratch_C14"
CHR = "chr1"


def scratch(name):
    wd = os.path.join(SCRATCH_ROOT, name)
    if os.path.exists(wd):
        shutil.rmtree(wd)
    os.makedirs(wd)
    return wd


def cleanup(wd):
    shutil.rmtree(wd, ignore_errors=True)
    try:
        os.rmdir(SCRATCH_ROOT)   # only succeeds when empty
    except OSError:
        pass


def make_genome(length, introns_plus=(), seed=1):
    """random sequence without homopolymer runs >2; GT..AG is planted at the given 1-based inclusive introns"""
    rnd = random.Random(seed)
    seq = []
    for _ in range(length):
        c = rnd.choice("ACGT")
        while len(seq) >= 2 and seq[-1] == c and seq[-2] == c:
            c = rnd.choice("ACGT")
        seq.append(c)
    for (s, e) in introns_plus:
        seq[s - 1:s + 1] = list("GT")
        seq[e - 2:e] = list("AG")
    return "".join(seq)


def write_fasta(path, seq):
    with open(path, "w") as f:
        f.write(">%s\n" % CHR)
        for i in range(0, len(seq), 60):
            f.write(seq[i:i + 60] + "\n")


def write_gtf(path, genes):
    """genes: list of (gene_id, strand, [(transcript_id, [(start, end), ...])]), 1-based inclusive exons"""
    with open(path, "w") as f:
        for gid, strand, transcripts in genes:
            gs = min(e[0] for _, ex in transcripts for e in ex)
            ge = max(e[1] for _, ex in transcripts for e in ex)
            f.write('%s\tsrc\tgene\t%d\t%d\t.\t%s\t.\tgene_id "%s";\n' % (CHR, gs, ge, strand, gid))
            for tid, exons in transcripts:
                f.write('%s\tsrc\ttranscript\t%d\t%d\t.\t%s\t.\tgene_id "%s"; transcript_id "%s";\n' %
                        (CHR, exons[0][0], exons[-1][1], strand, gid, tid))
                for (s, e) in exons:
                    f.write('%s\tsrc\texon\t%d\t%d\t.\t%s\t.\tgene_id "%s"; transcript_id "%s";\n' %
                            (CHR, s, e, strand, gid, tid))


def read_from_exons(name, exons, genome, mods=None, tail=None):
    """alignment with M blocks = exons (1-based inclusive) separated by N; the read sequence is the reference
    sequence (mods: 1-based position -> substituted base); tail: soft-clipped 3' sequence (polyA)"""
    cig, seq = [], []
    for i, (s, e) in enumerate(exons):
        if i > 0:
            cig.append((3, s - exons[i - 1][1] - 1))
        cig.append((0, e - s + 1))
        sub = list(genome[s - 1:e])
        for p, b in (mods or {}).items():
            if s <= p <= e:
                sub[p - s] = b
        seq.append("".join(sub))
    if tail:
        cig.append((4, len(tail)))
        seq.append(tail)
    return dict(name=name, start=exons[0][0] - 1, cigar=cig, seq="".join(seq))


def write_bam(path, reads, genome_len):
    header = {"HD": {"VN": "1.0", "SO": "coordinate"}, "SQ": [{"SN": CHR, "LN": genome_len}]}
    with pysam.AlignmentFile(path, "wb", header=header) as out:
        for r in sorted(reads, key=lambda x: x["start"]):
            a = pysam.AlignedSegment()
            a.query_name = r["name"]
            a.query_sequence = r["seq"]
            a.flag = 0
            a.reference_id = 0
            a.reference_start = r["start"]
            a.mapping_quality = 60
            a.cigartuples = r["cigar"]
            a.query_qualities = pysam.qualitystring_to_array("I" * len(r["seq"]))
            out.write(a)
    pysam.index(path)


def run_isoquant(wd, extra=()):
    out = os.path.join(wd, "out")
    shutil.rmtree(out, ignore_errors=True)
    home = os.path.join(wd, "home")
    os.makedirs(home, exist_ok=True)
    cmd = ["/venv/bin/python" if os.path.exists("/venv/bin/python") else sys.executable, os.path.join(REPO, "isoquant.py"),
           "--reference", os.path.join(wd, "genome.fa"),
           "--genedb", os.path.join(wd, "annot.gtf"), "--complete_genedb",
           "--bam", os.path.join(wd, "reads.bam"), "--data_type", "nanopore",
           "-o", out, "--threads", "1", "--no_gzip"] + list(extra)
    p = subprocess.run(cmd, env=dict(os.environ, HOME=home), stdout=subprocess.PIPE, stderr=subprocess.STDOUT,
                       text=True, timeout=300)
    if p.returncode != 0:
        print(p.stdout[-3000:])
        raise RuntimeError("IsoQuant failed with exit code %d" % p.returncode)
    return os.path.join(out, "OUT", "OUT")   # prefix of the output files


def parse_bed(path):
    recs = {}
    with open(path) as f:
        for line in f:
            if line.startswith("#") or not line.strip():
                continue
            t = line.rstrip("\n").split("\t")
            recs[t[3]] = dict(start=int(t[1]), end=int(t[2]), n=int(t[9]),
                              sizes=[int(x) for x in t[10].split(",") if x != ""],
                              starts=[int(x) for x in t[11].split(",") if x != ""], raw=line.rstrip("\n"))
    return recs


def bed_problems(rec, chrom_len):
    """BED12 well-formedness clauses of property C14"""
    pr = []
    if rec["n"] != len(rec["sizes"]) or rec["n"] != len(rec["starts"]):
        pr.append("blockCount does not match the block lists")
    if any(s <= 0 for s in rec["sizes"]):
        pr.append("non-positive block size(s) %s" % rec["sizes"])
    if any(s < 0 for s in rec["starts"]):
        pr.append("negative blockStart(s) %s (block lies before chromStart)" % rec["starts"])
    if rec["starts"] and rec["starts"][0] != 0:
        pr.append("first block does not start at chromStart")
    for i in range(1, len(rec["starts"])):
        if rec["starts"][i] < rec["starts"][i - 1] + rec["sizes"][i - 1]:
            pr.append("block %d starts (%d) before the previous block ends (%d)" %
                      (i, rec["starts"][i], rec["starts"][i - 1] + rec["sizes"][i - 1]))
    if rec["starts"] and rec["start"] + rec["starts"][-1] + rec["sizes"][-1] != rec["end"]:
        pr.append("last block does not end at chromEnd")
    if rec["start"] < 0 or rec["end"] > chrom_len:
        pr.append("coordinates outside the chromosome")
    return pr


def bed_exons(rec):
    """1-based inclusive blocks of a BED12 record"""
    return [(rec["start"] + s + 1, rec["start"] + s + l) for s, l in zip(rec["starts"], rec["sizes"])]


# ---------------------------------------------------------------------------------------------------------------
# Finding 4: the short-read (Illumina) corrector silently changes the start / end of a read.
# IlluminaExonCorrector.correct_exons rebuilds the exons with get_exons(), which is junctions_from_blocks() over
# [(-inf, start-1)] + introns + [(end+1, +inf)]: when a corrected intron reaches the read start / end (terminal exon
# shorter than the allowed shift: 4 bp for the "differs by 4" rule, 25 bp for the skipped-exon rule) the terminal
# exon is dropped without any notice and the read starts / ends somewhere else, although no terminal-exon
# correction is enabled (strategy conservative_ont).
# ---------------------------------------------------------------------------------------------------------------
def main():
    wd = scratch("hunt4")
    L = 8000
    genome = make_genome(L, introns_plus=[(1501, 2000), (2301, 2800), (3481, 3600), (3631, 3900), (6501, 7000)])
    write_fasta(wd + "/genome.fa", genome)
    write_gtf(wd + "/annot.gtf", [("G1", "+", [("T1", [(6000, 6500), (7001, 7300)])])])   # reads below are intergenic
    inputs = {
        # last exon 4 bp, in front of the acceptor supported by short reads (2301-2800)
        "r_last4": [(1100, 1500), (2001, 2300), (2797, 2800)],
        # first exon 20 bp; its intron 3501-3900 skips the 30 bp exon 3601-3630 supported by short reads
        "r_first20": [(3481, 3500), (3901, 4200)],
        "r_genic": [(6100, 6500), (7001, 7200)],
    }
    write_bam(wd + "/reads.bam", [read_from_exons(n, e, genome) for n, e in inputs.items()], L)
    short = []
    for k in range(3):
        short.append(read_from_exons("s%d" % k, [(1451 + k, 1500), (2001, 2050 + k)], genome))
        short.append(read_from_exons("t%d" % k, [(2251 + k, 2300), (2801, 2850 + k)], genome))
        short.append(read_from_exons("u%d" % k, [(3431 + k, 3480), (3601, 3630), (3901, 3950 + k)], genome))
    write_bam(wd + "/short.bam", short, L)

    out = run_isoquant(wd, ["--splice_correction_strategy", "conservative_ont", "--illumina_bam", wd + "/short.bam"])
    bed = parse_bed(out + ".corrected_reads.bed")
    bad = []
    for name, exons in inputs.items():
        rec = bed[name]
        corrected = bed_exons(rec)
        print("%s input %s -> corrected %s" % (name, exons, corrected))
        if corrected[0][0] != exons[0][0]:
            bad.append("%s: read start changed %d -> %d" % (name, exons[0][0], corrected[0][0]))
        if corrected[-1][1] != exons[-1][1]:
            bad.append("%s: read end changed %d -> %d" % (name, exons[-1][1], corrected[-1][1]))
    cleanup(wd)
    for b in bad:
        print("VIOLATION: " + b)
    if bad:
        print("C14 violated: corrected reads do not keep their start / end although no terminal-exon correction is "
              "enabled by the strategy (conservative_ont)")
        return 1
    print("no violation observed")
    return 0


if __name__ == "__main__":
    sys.exit(main())
