#!/venv/bin/python
"""
hunt3 / C14 / item 1 (BORDERLINE, depends on interpretation)

With --splice_correction_strategy none (and with default_pacbio, a strategy that enables no terminal-exon correction)
a record of corrected_reads.bed loses its last block and ends 580 bases before the input alignment ends:
the last aligned block lies on a genomic A-run and is cut off as an "aligned poly-A tail"
(src/alignment_info.py add_polya_info / src/polya_verification.py PolyAFixer.count_polya_exons) before any
splice correction strategy is consulted.

Letter of C14: "A corrected read keeps its original start and end unless a terminal-exon correction enabled by the
chosen strategy applies ... with --splice_correction_strategy none the corrected alignment equals the input alignment."

The behaviour is documented as event `aligned_polya_tail` (docs/formats.md), so this is most likely intended behaviour
that the statement does not mention, not a coding slip.

exit 1 = the record differs from the input alignment under `none`, 0 = equal.
"""
import os
import random
import shutil
import subprocess
import sys

import pysam

HERE = os.path.dirname(os.path.abspath(__file__))
ISOQUANT = os.path.join(HERE, "isoquant.py")
PY = "/venv/bin/python"
WD = "/tmp/hunt3scratch_C14/demo1"


def main():
    shutil.rmtree(WD, ignore_errors=True)
    os.makedirs(os.path.join(WD, "home"))
    rng = random.Random(5)
    seq = [rng.choice("ACGT") for _ in range(20000)]
    seq[4799:4830] = "A" * 31          # genomic A-run, 1-based 4800..4830
    seq = "".join(seq)
    fa = os.path.join(WD, "genome.fa")
    with open(fa, "w") as f:
        f.write(">chr1\n")
        for i in range(0, len(seq), 60):
            f.write(seq[i:i + 60] + "\n")
    gtf = os.path.join(WD, "annot.gtf")
    exons = [(1000, 1200), (2000, 2100), (3000, 3200), (4000, 4300)]
    with open(gtf, "w") as f:
        f.write('chr1\tsrc\tgene\t1000\t4300\t.\t+\t.\tgene_id "G1";\n')
        f.write('chr1\tsrc\ttranscript\t1000\t4300\t.\t+\t.\tgene_id "G1"; transcript_id "T1";\n')
        for s, e in exons:
            f.write('chr1\tsrc\texon\t%d\t%d\t.\t+\t.\tgene_id "G1"; transcript_id "T1";\n' % (s, e))

    read_exons = [(1010, 1200), (2000, 2100), (3000, 3200), (4000, 4250), (4800, 4830)]
    cigar = []
    query = ""
    for i, (s, e) in enumerate(read_exons):
        if i:
            cigar.append((3, s - read_exons[i - 1][1] - 1))
        cigar.append((0, e - s + 1))
        query += seq[s - 1:e]
    bam = os.path.join(WD, "reads.bam")
    header = {"HD": {"VN": "1.6", "SO": "coordinate"}, "SQ": [{"SN": "chr1", "LN": len(seq)}]}
    with pysam.AlignmentFile(bam, "wb", header=header) as out:
        a = pysam.AlignedSegment()
        a.query_name = "tailexon"
        a.flag = 0
        a.reference_id = 0
        a.reference_start = read_exons[0][0] - 1
        a.mapping_quality = 60
        a.cigartuples = cigar
        a.query_sequence = query
        a.query_qualities = pysam.qualitystring_to_array("I" * len(query))
        out.write(a)
    pysam.index(bam)

    violated = False
    for strategy in ("none", "default_pacbio"):
        outdir = os.path.join(WD, "out_" + strategy)
        cmd = [PY, ISOQUANT, "--reference", fa, "--genedb", gtf, "--complete_genedb", "--bam", bam,
               "--data_type", "nanopore", "-o", outdir, "--threads", "1", "--no_gzip",
               "--splice_correction_strategy", strategy]
        p = subprocess.run(cmd, env=dict(os.environ, HOME=os.path.join(WD, "home")),
                           stdout=subprocess.PIPE, stderr=subprocess.STDOUT, text=True)
        if p.returncode != 0:
            print(p.stdout[-2000:])
            print("IsoQuant failed")
            return 2
        for line in open(os.path.join(outdir, "OUT", "OUT.corrected_reads.bed")):
            if line.startswith("#"):
                continue
            t = line.rstrip("\n").split("\t")
            start = int(t[1])
            sizes = [int(x) for x in t[10].split(",")]
            starts = [int(x) for x in t[11].split(",")]
            blocks = [(start + st + 1, start + st + sz) for st, sz in zip(starts, sizes)]
            print("strategy %-15s input  %s" % (strategy, read_exons))
            print("strategy %-15s output %s" % (strategy, blocks))
            if blocks != read_exons:
                violated = True
                print("  -> the corrected record ends at %d, the input alignment at %d; no terminal-exon correction "
                      "is enabled by this strategy" % (blocks[-1][1], read_exons[-1][1]))
    shutil.rmtree(WD, ignore_errors=True)
    if violated:
        print("C14 (letter) violated: corrected alignment differs from the input alignment under a strategy "
              "without terminal-exon corrections (aligned poly-A tail trimmed before correction)")
        return 1
    print("corrected alignment equals the input alignment")
    return 0


if __name__ == "__main__":
    sys.exit(main())
