#!/usr/bin/env python3
"""C17, search 3, finding 1.

A reference in which one exon (same chromosome, start, end, strand) carries two different exon_id values in two
transcripts - as Ensembl/GENCODE annotations do (20 of the 264 exon records of tests/simple_data/chr9.4M.gtf.gz) -
and whose CDS / UTR / start_codon records carry the exon_id of the exon they lie in (GENCODE style).

FeatureIdStorage keeps ONE id per coordinate (the last one read) and derives the set of "ids that belong to exons"
from these survivors only.  The id that lost (E_A2) is therefore no longer known as an exon's id: each CDS / UTR /
codon record that carries it "keeps its own id", i.e. E_A2 is registered for the coordinates of every such record.
Result in the unchanged code:
  * the output GTFs carry exon_id "E_A2" on three different coordinate tuples (UTR, start_codon, CDS);
  * a novel exon whose coordinates equal one of them (here: a novel acceptor right at the start codon, exon
    2100-2300) is printed with exon_id "E_A2" - an id that the reference uses for the exon 2000-2300, which itself
    is printed with "E_A1".
exit 1 = violated, 0 = fine.
"""
import collections
import os
import random
import re
import shutil
import subprocess
import sys

import pysam

HERE = os.path.dirname(os.path.abspath(__file__))
ISOQUANT = os.path.join(HERE, "isoquant.py")
WD = "/tmp/hunt3scratch_C17/f1"
PY = "/venv/bin/python" if os.path.exists("/venv/bin/python") else sys.executable

T1 = [(1000, 1200), (2000, 2300), (3000, 3300)]
T2 = [(1000, 1200), (2000, 2300), (4000, 4300)]
NOVEL = [(1000, 1200), (2100, 2300), (3000, 3300)]   # acceptor at the first base of the start codon


def introns(exons):
    return [(exons[i][1] + 1, exons[i + 1][0] - 1) for i in range(len(exons) - 1)]


def main():
    shutil.rmtree(WD, ignore_errors=True)
    os.makedirs(os.path.join(WD, "home"))
    rnd = random.Random(7)
    seq = [rnd.choice("ACGT") for _ in range(6000)]
    for ex in (T1, T2, NOVEL):
        for a, b in introns(ex):
            seq[a - 1:a + 1] = "GT"
            seq[b - 2:b] = "AG"
    seq[2099:2102] = "ATG"
    seq = "".join(seq)
    fasta = os.path.join(WD, "genome.fa")
    with open(fasta, "w") as f:
        f.write(">chr1\n")
        for i in range(0, len(seq), 60):
            f.write(seq[i:i + 60] + "\n")

    def rec(ftype, s, e, tid, extra=""):
        return 'chr1\tHAVANA\t%s\t%d\t%d\t.\t+\t.\tgene_id "G1"; transcript_id "%s"; %s' % (ftype, s, e, tid, extra)

    lines = ['chr1\tHAVANA\tgene\t1000\t4300\t.\t+\t.\tgene_id "G1";']
    # T2 first: its id for the shared exon 2000-2300 (E_A2) is the one that is overwritten
    lines.append(rec("transcript", 1000, 4300, "T2"))
    lines.append(rec("exon", 1000, 1200, "T2", 'exon_number 1; exon_id "E_1";'))
    lines.append(rec("exon", 2000, 2300, "T2", 'exon_number 2; exon_id "E_A2";'))
    lines.append(rec("UTR", 2000, 2099, "T2", 'exon_number 2; exon_id "E_A2";'))
    lines.append(rec("start_codon", 2100, 2102, "T2", 'exon_number 2; exon_id "E_A2";'))
    lines.append(rec("CDS", 2100, 2300, "T2", 'exon_number 2; exon_id "E_A2";'))
    lines.append(rec("exon", 4000, 4300, "T2", 'exon_number 3; exon_id "E_4";'))
    lines.append(rec("transcript", 1000, 3300, "T1"))
    lines.append(rec("exon", 1000, 1200, "T1", 'exon_number 1; exon_id "E_1";'))
    lines.append(rec("exon", 2000, 2300, "T1", 'exon_number 2; exon_id "E_A1";'))
    lines.append(rec("exon", 3000, 3300, "T1", 'exon_number 3; exon_id "E_3";'))
    gtf = os.path.join(WD, "annot.gtf")
    with open(gtf, "w") as f:
        f.write("\n".join(lines) + "\n")

    bam = os.path.join(WD, "reads.bam")
    header = {"HD": {"VN": "1.6", "SO": "coordinate"}, "SQ": [{"SN": "chr1", "LN": len(seq)}]}
    reads = [("t1_%d" % i, T1) for i in range(6)] + [("t2_%d" % i, T2) for i in range(6)] + \
            [("nov_%d" % i, NOVEL) for i in range(8)]
    with pysam.AlignmentFile(bam, "wb", header=header) as out:
        for name, exons in sorted(reads, key=lambda x: x[1][0][0]):
            a = pysam.AlignedSegment()
            a.query_name = name
            a.query_sequence = "".join(seq[s - 1:e] for s, e in exons)
            a.flag = 0
            a.reference_id = 0
            a.reference_start = exons[0][0] - 1
            a.mapping_quality = 60
            cigar = []
            for i, (s, e) in enumerate(exons):
                if i:
                    cigar.append((3, s - exons[i - 1][1] - 1))
                cigar.append((0, e - s + 1))
            a.cigartuples = cigar
            a.query_qualities = pysam.qualitystring_to_array("I" * len(a.query_sequence))
            out.write(a)
    pysam.index(bam)

    env = dict(os.environ, HOME=os.path.join(WD, "home"))
    cmd = [PY, ISOQUANT, "--reference", fasta, "--genedb", gtf, "--complete_genedb", "--bam", bam,
           "--data_type", "nanopore", "-o", os.path.join(WD, "out"), "--threads", "1", "--no_gzip"]
    p = subprocess.run(cmd, env=env, stdout=subprocess.PIPE, stderr=subprocess.STDOUT, text=True)
    if p.returncode != 0:
        print(p.stdout[-3000:])
        print("IsoQuant failed")
        return 2

    violated = False
    for name in ("OUT.transcript_models.gtf", "OUT.extended_annotation.gtf"):
        id_to_coords = collections.defaultdict(set)
        exon_rows = []
        for l in open(os.path.join(WD, "out", "OUT", name)):
            if l.startswith("#"):
                continue
            v = l.rstrip("\n").split("\t")
            if v[2] in ("gene", "transcript"):
                continue
            m = re.search(r'exon_id "([^"]*)"', v[8])
            tid = re.search(r'transcript_id "([^"]*)"', v[8]).group(1)
            id_to_coords[m.group(1)].add((v[0], int(v[3]), int(v[4]), v[6]))
            if v[2] == "exon":
                exon_rows.append((tid, int(v[3]), int(v[4]), m.group(1)))
        print("== " + name)
        for i, coords in sorted(id_to_coords.items()):
            if len(coords) > 1:
                violated = True
                print('  exon_id "%s" is printed for %d different coordinates: %s' % (i, len(coords), sorted(coords)))
        for tid, s, e, i in exon_rows:
            if i == "E_A2" and (s, e) != (2000, 2300):
                violated = True
                print('  exon %d-%d of %s carries exon_id "E_A2", which the reference gives to exon 2000-2300' % (s, e, tid))
            if (s, e) == (2000, 2300):
                print('  exon 2000-2300 of %s carries exon_id "%s"' % (tid, i))
    print("VIOLATED" if violated else "ok")
    return 1 if violated else 0


if __name__ == "__main__":
    sys.exit(main())
