#!/venv/bin/python
"""C17, second pass, finding 1.

exon_id attributes that IsoQuant itself writes on CDS lines (and on start_codon / stop_codon / UTR lines) of the
extended annotation are neither preserved nor reserved when this annotation is given back as --genedb:
FeatureIdStorage only looks at features of type "exon".  In the second run a new exon receives an id that the
reference already uses for other coordinates, and the feature that owned the id is renumbered.

round 1: GENCODE-like reference (exon + CDS lines, Ensembl exon ids), reads of the known gene only
round 2: --genedb = OUT.extended_annotation.gtf of round 1, reads of the known gene and of an unannotated locus

exit 1 = violation observed, exit 0 = not observed, exit 2 = harness problem
"""
import os, random, re, shutil, subprocess, sys
import pysam

REPO = os.path.dirname(os.path.abspath(__file__))
WD = "/tmp/hunt2scratch_C17/hunt2_C17_1"
shutil.rmtree(WD, ignore_errors=True)
os.makedirs(WD + "/home")

rng = random.Random(17)
L = 12000
seq = [rng.choice("ACGT") for _ in range(L)]
# unannotated locus U (plus strand, 3 exons) upstream of the annotated gene G (plus strand, 4 exons)
U = [(501, 650), (901, 1050), (1301, 1450)]
G = [(4001, 4200), (4501, 4650), (4951, 5100), (5401, 5600)]
for ex in (U, G):
    for i, (a, b) in enumerate(ex):
        if i < len(ex) - 1:
            seq[b], seq[b + 1] = "G", "T"          # donor, 1-based b+1, b+2
        if i > 0:
            seq[a - 3], seq[a - 2] = "A", "G"      # acceptor, 1-based a-2, a-1
seq = "".join(seq)
with open(WD + "/g.fa", "w") as f:
    f.write(">chr1\n")
    for i in range(0, L, 60):
        f.write(seq[i:i + 60] + "\n")


def line(ft, a, b, attrs):
    return "chr1\tHAVANA\t%s\t%d\t%d\t.\t+\t.\t%s\n" % (ft, a, b, attrs)


with open(WD + "/ref1.gtf", "w") as f:
    f.write(line("gene", G[0][0], G[-1][1], 'gene_id "G"; gene_type "protein_coding";'))
    base = 'gene_id "G"; transcript_id "G.t1";'
    f.write(line("transcript", G[0][0], G[-1][1], base))
    for i, (a, b) in enumerate(G):
        eid = ' exon_id "ENSE%05d";' % (i + 1)
        f.write(line("exon", a, b, base + eid))
        # coding part: first and last exon are partly UTR (as in any GENCODE transcript)
        ca = a + 50 if i == 0 else a
        cb = b - 50 if i == len(G) - 1 else b
        f.write(line("CDS", ca, cb, base + eid))

header = pysam.AlignmentHeader.from_dict({"HD": {"VN": "1.0", "SO": "coordinate"}, "SQ": [{"SN": "chr1", "LN": L}]})


def write_bam(path, loci):
    reads = []
    n = 0
    for ex in loci:
        for k in range(8):
            n += 1
            r = pysam.AlignedSegment(header)
            r.query_name = "read%d" % n
            s, cig, prev = "", [], None
            for a, b in ex:
                if prev is not None:
                    cig.append((3, a - prev - 1))
                cig.append((0, b - a + 1))
                s += seq[a - 1:b]
                prev = b
            r.query_sequence = s + "A" * 30
            r.cigartuples = cig + [(4, 30)]
            r.flag, r.reference_id, r.reference_start, r.mapping_quality = 0, 0, ex[0][0] - 1, 60
            r.query_qualities = pysam.qualitystring_to_array("I" * len(r.query_sequence))
            reads.append(r)
    reads.sort(key=lambda x: x.reference_start)
    with pysam.AlignmentFile(path, "wb", header=header) as out:
        for r in reads:
            out.write(r)
    pysam.index(path)


write_bam(WD + "/r1.bam", [G])
write_bam(WD + "/r2.bam", [U, G])


def run(genedb, bam, out):
    env = dict(os.environ, HOME=WD + "/home")
    cmd = [sys.executable, REPO + "/isoquant.py", "--reference", WD + "/g.fa", "--genedb", genedb, "--complete_genedb",
           "--bam", bam, "--data_type", "nanopore", "-o", out, "--threads", "1"]
    p = subprocess.run(cmd, env=env, stdout=subprocess.PIPE, stderr=subprocess.STDOUT, text=True)
    if p.returncode != 0:
        print(p.stdout[-3000:])
        sys.exit(2)


def features_with_exon_id(path):
    res = []
    for l in open(path):
        if l.startswith("#"):
            continue
        v = l.rstrip("\n").split("\t")
        m = re.search(r'exon_id "([^"]*)"', v[8])
        if m:
            res.append((v[2], (v[0], int(v[3]), int(v[4]), v[6]), m.group(1)))
    return res


run(WD + "/ref1.gtf", WD + "/r1.bam", WD + "/out1")
ref2 = WD + "/ref2.gtf"
shutil.copy(WD + "/out1/OUT/OUT.extended_annotation.gtf", ref2)
run(ref2, WD + "/r2.bam", WD + "/out2")

ref_feats = features_with_exon_id(ref2)
ref_id_to_coords = {}
ref_coords_to_id = {}
for ft, k, eid in ref_feats:
    ref_id_to_coords.setdefault(eid, set()).add(k)
    ref_coords_to_id.setdefault(k, set()).add(eid)

problems = []
seen = set()
for fn in ("OUT.transcript_models.gtf", "OUT.extended_annotation.gtf"):
    for ft, k, eid in features_with_exon_id(WD + "/out2/OUT/" + fn):
        if eid in ref_id_to_coords and k not in ref_id_to_coords[eid] and (eid, k) not in seen:
            seen.add((eid, k))
            problems.append("%s: %s %s:%d-%d%s has exon_id \"%s\", which the reference annotation uses for %s"
                            % (fn, ft, k[0], k[1], k[2], k[3], eid,
                               ", ".join("%s:%d-%d%s" % c for c in sorted(ref_id_to_coords[eid]))))
        if k in ref_coords_to_id and eid not in ref_coords_to_id[k] and (k, eid) not in seen:
            seen.add((k, eid))
            problems.append("%s: %s %s:%d-%d%s had exon_id %s in the reference annotation, now \"%s\""
                            % (fn, ft, k[0], k[1], k[2], k[3], "/".join(sorted(ref_coords_to_id[k])), eid))

if problems:
    print("reference of round 2 = IsoQuant's own extended annotation of round 1; lines with exon_id there:")
    for ft, k, eid in ref_feats:
        print("   %-5s %s:%d-%d%s  exon_id \"%s\"" % (ft, k[0], k[1], k[2], k[3], eid))
    print("VIOLATION (C17): exon ids of the reference are reused for other coordinates / not preserved:")
    for p in problems:
        print("   " + p)
    sys.exit(1)
print("OK: all exon_id attributes of the reference keep their coordinates")
sys.exit(0)
