#!/usr/bin/env python3
"""C17, search 3, finding 2 (sibling of the known, unrepaired ExcludingIdDistributor item, but another code site).

FeatureIdStorage (src/id_policy.py) learns the exon_id values of the reference only from the records that lie ON the
contig it serves (genedb.region(seqid=chr_id, ...)).  New exon ids are "<contig>.<n>", so an id of that form that the
reference uses on ANOTHER contig is not reserved.  Such references arise when an annotation written by IsoQuant is
transferred to another assembly / set of contig names (liftover; scaffold names that were re-assigned between
assembly versions), the exon_id attributes travelling with the records.

Here the reference has a gene on chr2 whose exons carry exon_id "chr1.1" .. "chr1.3"; reads support an unannotated
gene on chr1.  In the unchanged code the new exons on chr1 are numbered chr1.1, chr1.2, chr1.3: one output file then
has the same exon_id on exons of two chromosomes, and new exons carry ids that the reference uses for other exons.
exit 1 = violated, 0 = fine.
"""
import collections
import os
import random
import re
import shutil
import subprocess
import sys

import pysam

HERE = os.path.dirname(os.path.abspath(__file__))
ISOQUANT = os.path.join(HERE, "isoquant.py")
WD = "/tmp/hunt3scratch_C17/f2"
PY = "/venv/bin/python" if os.path.exists("/venv/bin/python") else sys.executable

KNOWN = [(1000, 1200), (2000, 2200), (3000, 3300)]      # annotated gene on chr2
NOVEL = [(1500, 1700), (2500, 2700), (3500, 3800)]      # unannotated gene on chr1


def introns(exons):
    return [(exons[i][1] + 1, exons[i + 1][0] - 1) for i in range(len(exons) - 1)]


def main():
    shutil.rmtree(WD, ignore_errors=True)
    os.makedirs(os.path.join(WD, "home"))
    rnd = random.Random(11)
    seqs = {}
    for c in ("chr1", "chr2"):
        s = [rnd.choice("ACGT") for _ in range(6000)]
        for ex in (KNOWN, NOVEL):
            for a, b in introns(ex):
                s[a - 1:a + 1] = "GT"
                s[b - 2:b] = "AG"
        seqs[c] = "".join(s)
    fasta = os.path.join(WD, "genome.fa")
    with open(fasta, "w") as f:
        for c, s in seqs.items():
            f.write(">%s\n" % c)
            for i in range(0, len(s), 60):
                f.write(s[i:i + 60] + "\n")

    lines = ['chr2\tIsoQuant\tgene\t1000\t3300\t.\t+\t.\tgene_id "geneA";',
             'chr2\tIsoQuant\ttranscript\t1000\t3300\t.\t+\t.\tgene_id "geneA"; transcript_id "txA";']
    for i, (s, e) in enumerate(KNOWN):
        lines.append('chr2\tIsoQuant\texon\t%d\t%d\t.\t+\t.\tgene_id "geneA"; transcript_id "txA"; exon_number "%d"; '
                     'exon_id "chr1.%d";' % (s, e, i + 1, i + 1))
    gtf = os.path.join(WD, "annot.gtf")
    with open(gtf, "w") as f:
        f.write("\n".join(lines) + "\n")

    bam = os.path.join(WD, "reads.bam")
    header = {"HD": {"VN": "1.6", "SO": "coordinate"},
              "SQ": [{"SN": c, "LN": len(s)} for c, s in seqs.items()]}
    reads = [("nov_%d" % i, 0, NOVEL) for i in range(8)] + [("kn_%d" % i, 1, KNOWN) for i in range(8)]
    with pysam.AlignmentFile(bam, "wb", header=header) as out:
        for name, ref_id, exons in sorted(reads, key=lambda x: (x[1], x[2][0][0])):
            seq = seqs["chr1" if ref_id == 0 else "chr2"]
            a = pysam.AlignedSegment()
            a.query_name = name
            a.query_sequence = "".join(seq[s - 1:e] for s, e in exons)
            a.flag = 0
            a.reference_id = ref_id
            a.reference_start = exons[0][0] - 1
            a.mapping_quality = 60
            cigar = []
            for i, (s, e) in enumerate(exons):
                if i:
                    cigar.append((3, s - exons[i - 1][1] - 1))
                cigar.append((0, e - s + 1))
            a.cigartuples = cigar
            a.query_qualities = pysam.qualitystring_to_array("I" * len(a.query_sequence))
            out.write(a)
    pysam.index(bam)

    env = dict(os.environ, HOME=os.path.join(WD, "home"))
    cmd = [PY, ISOQUANT, "--reference", fasta, "--genedb", gtf, "--complete_genedb", "--bam", bam,
           "--data_type", "nanopore", "-o", os.path.join(WD, "out"), "--threads", "1", "--no_gzip"]
    p = subprocess.run(cmd, env=env, stdout=subprocess.PIPE, stderr=subprocess.STDOUT, text=True)
    if p.returncode != 0:
        print(p.stdout[-3000:])
        print("IsoQuant failed")
        return 2

    violated = False
    for name in ("OUT.transcript_models.gtf", "OUT.extended_annotation.gtf"):
        id_to_exons = collections.defaultdict(set)
        for l in open(os.path.join(WD, "out", "OUT", name)):
            v = l.rstrip("\n").split("\t")
            if l.startswith("#") or v[2] != "exon":
                continue
            i = re.search(r'exon_id "([^"]*)"', v[8]).group(1)
            id_to_exons[i].add((v[0], int(v[3]), int(v[4]), v[6]))
        print("== " + name)
        for i, exons in sorted(id_to_exons.items()):
            if len(exons) > 1:
                violated = True
                print('  exon_id "%s" is carried by %d different exons: %s' % (i, len(exons), sorted(exons)))
    print("VIOLATED" if violated else "ok")
    return 1 if violated else 0


if __name__ == "__main__":
    sys.exit(main())
