#!/venv/bin/python
"""
C17 hunt, finding 2 (BORDERLINE - depends on how far "the output GTFs" reaches):
one IsoQuant invocation with two experiments (--yaml) writes four GTFs.  exon_id numbers are drawn from a counter
that is restarted for every experiment and every chromosome (dataset_processor.construct_models_in_parallel creates
FeatureIdStorage(SimpleIDDistributor(), ...) per call) in the order in which exons happen to be printed, so the
same exon - even an exon of the reference annotation - gets different exon_id values in the GTFs of the two
experiments, and the same exon_id denotes different exons.

Within the two GTFs of ONE experiment everything is consistent; the script only compares GTFs across experiments
of the same run.  Exit code 1 when identical exons carry different ids / one id denotes different exons, else 0.
"""
import collections
import os
import random
import re
import shutil
import subprocess
import sys

import pysam

ROOT = os.path.dirname(os.path.abspath(__file__))
PY = "/venv/bin/python"
WORK = "/tmp/huntscratch_C17/hunt2"

T1 = [(1000, 1200), (2000, 2200), (3000, 3300)]                    # annotated isoform
NN = [(1000, 1200), (1500, 1600), (2000, 2200), (3000, 3300)]      # novel isoform, seen in experiment E1 only
NN2 = [(1000, 1200), (2000, 2200), (2500, 2600), (3000, 3300)]     # novel isoform, seen in experiment E2 only


def introns_of(exons):
    return [(exons[i][1] + 1, exons[i + 1][0] - 1) for i in range(len(exons) - 1)]


def make_chromosome(seed):
    rnd = random.Random(seed)
    s = [rnd.choice("ACGT") for _ in range(10000)]
    for a, b in introns_of(T1) + introns_of(NN) + introns_of(NN2):
        s[a - 1:a + 1] = "GT"
        s[b - 2:b] = "AG"
    return "".join(s)


def write_bam(path, seqs, reads):
    chrs = list(seqs.keys())
    header = {'HD': {'VN': '1.0', 'SO': 'coordinate'}, 'SQ': [{'LN': len(seqs[c]), 'SN': c} for c in chrs]}
    recs = []
    for name, c, exons in reads:
        a = pysam.AlignedSegment()
        a.query_name = name
        seq = "".join(seqs[c][s - 1:e] for s, e in exons) + "A" * 25
        cigar = []
        for i, (s, e) in enumerate(exons):
            if i > 0:
                cigar.append((3, s - exons[i - 1][1] - 1))
            cigar.append((0, e - s + 1))
        cigar.append((4, 25))
        a.query_sequence = seq
        a.flag = 0
        a.reference_id = chrs.index(c)
        a.reference_start = exons[0][0] - 1
        a.mapping_quality = 60
        a.cigar = cigar
        a.query_qualities = pysam.qualitystring_to_array("I" * len(seq))
        recs.append(a)
    recs.sort(key=lambda r: (r.reference_id, r.reference_start, r.query_name))
    with pysam.AlignmentFile(path, "wb", header=header) as out:
        for r in recs:
            out.write(r)
    pysam.index(path)


def exon_ids(path):
    res = {}
    for l in open(path):
        if l.startswith("#"):
            continue
        v = l.rstrip("\n").split("\t")
        if v[2] != "exon":
            continue
        attrs = dict(re.findall(r'(\S+) "([^"]*)";', v[8]))
        res[(v[0], int(v[3]), int(v[4]), v[6])] = attrs["exon_id"]
    return res


def main():
    shutil.rmtree(WORK, ignore_errors=True)
    os.makedirs(WORK + "/home")
    seqs = collections.OrderedDict([("chrA", make_chromosome(1))])
    with open(WORK + "/g.fa", "w") as f:
        f.write(">chrA\n%s\n" % seqs["chrA"])
    with open(WORK + "/ref.gtf", "w") as f:
        f.write('chrA\tREF\tgene\t1000\t3300\t.\t+\t.\tgene_id "G";\n')
        f.write('chrA\tREF\ttranscript\t1000\t3300\t.\t+\t.\tgene_id "G"; transcript_id "T1";\n')
        for s, e in T1:
            f.write('chrA\tREF\texon\t%d\t%d\t.\t+\t.\tgene_id "G"; transcript_id "T1";\n' % (s, e))
    write_bam(WORK + "/e1.bam", seqs, [("k%d" % i, "chrA", T1) for i in range(8)] + [("n%d" % i, "chrA", NN) for i in range(8)])
    write_bam(WORK + "/e2.bam", seqs, [("k%d" % i, "chrA", T1) for i in range(8)] + [("m%d" % i, "chrA", NN2) for i in range(8)])
    with open(WORK + "/data.yaml", "w") as f:
        f.write('[\n  data format: "bam",\n  {name: "E1", long read files: ["%s"]},\n  {name: "E2", long read files: ["%s"]}\n]\n'
                % (WORK + "/e1.bam", WORK + "/e2.bam"))
    env = dict(os.environ)
    env["HOME"] = WORK + "/home"
    cmd = [PY, os.path.join(ROOT, "isoquant.py"), "--reference", WORK + "/g.fa", "--genedb", WORK + "/ref.gtf",
           "--complete_genedb", "--yaml", WORK + "/data.yaml", "--data_type", "nanopore", "-o", WORK + "/out",
           "--threads", "1", "--no_gzip"]
    p = subprocess.run(cmd, env=env, stdout=subprocess.PIPE, stderr=subprocess.STDOUT, universal_newlines=True)
    if p.returncode != 0:
        print(p.stdout[-3000:])
        print("IsoQuant failed, cannot evaluate")
        sys.exit(2)

    problems = []
    exon_to_id = {}
    id_to_exon = {}
    for exp in ("E1", "E2"):
        for suffix in ("transcript_models", "extended_annotation"):
            fname = "%s/%s.%s.gtf" % (exp, exp, suffix)
            for exon, eid in sorted(exon_ids(os.path.join(WORK, "out", fname)).items()):
                first = exon_to_id.setdefault(exon, (eid, fname))
                if first[0] != eid:
                    problems.append("exon %s: exon_id %s in %s but %s in %s" % (str(exon), first[0], first[1], eid, fname))
                first = id_to_exon.setdefault(eid, (exon, fname))
                if first[0] != exon:
                    problems.append("exon_id %s: exon %s in %s but exon %s in %s" % (eid, str(first[0]), first[1], str(exon), fname))
    shutil.rmtree(WORK, ignore_errors=True)
    if problems:
        print("C17 (borderline): exon_id is not a function of the exon across the GTFs written by one run")
        for pr in problems:
            print("  " + pr)
        sys.exit(1)
    print("OK: exon ids are consistent across the GTFs of both experiments")
    sys.exit(0)


if __name__ == "__main__":
    main()
