#!/venv/bin/python
"""
C17 hunt, finding 1: collision avoidance for novel transcript / gene / exon ids only looks at the reference
records of the chromosome that is currently processed (ExcludingIdDistributor and FeatureIdStorage are built
from genedb.region(seqid=chr_id, ...)).  A reference annotation that carries IsoQuant-style ids on ANOTHER
chromosome than the one encoded in the id makes IsoQuant issue the very same ids again.

Scenario (two runs, everything synthetic):
  run 1: assembly v1 (chrA, chrB), plain reference annotation; IsoQuant discovers novel transcripts / a novel
         gene on chrA and writes OUT.extended_annotation.gtf with transcript1.chrA.nnic, novel_gene_chrA_4,
         exon ids chrA.1 ... .
  transfer: the extended annotation is transferred (lift-over style: sequence name changes, attributes are kept)
         to assembly v2 in which the two homologous chromosomes are numbered the other way round
         (v2 chrA = v1 chrB and v2 chrB = v1 chrA, as it happens between strains / species / assembly versions).
  run 2: IsoQuant on v2 with the transferred annotation as --genedb and reads that yield novel models on v2 chrA.

Expected by the property: novel ids never collide with ids of the reference, ids are unique within each output
file, distinct exons carry distinct exon_id across all chromosomes.
Exit code 1 and a description when this is violated, 0 otherwise.
"""
import collections
import os
import random
import re
import shutil
import subprocess
import sys

import pysam

ROOT = os.path.dirname(os.path.abspath(__file__))
PY = "/venv/bin/python"
WORK = "/tmp/huntscratch_C17/hunt1"

T1 = [(1000, 1200), (2000, 2200), (3000, 3300)]                    # annotated isoform
NN = [(1000, 1200), (1500, 1600), (2000, 2200), (3000, 3300)]      # novel isoform of the annotated gene
NG = [(10000, 10300), (11000, 11200), (12000, 12400)]              # novel gene


def introns_of(exons):
    return [(exons[i][1] + 1, exons[i + 1][0] - 1) for i in range(len(exons) - 1)]


def make_chromosome(seed):
    rnd = random.Random(seed)
    s = [rnd.choice("ACGT") for _ in range(30000)]
    for a, b in introns_of(T1) + introns_of(NN) + introns_of(NG):
        s[a - 1:a + 1] = "GT"
        s[b - 2:b] = "AG"
    return "".join(s)


def write_fasta(path, seqs):
    with open(path, "w") as f:
        for c, s in seqs.items():
            f.write(">%s\n" % c)
            for i in range(0, len(s), 60):
                f.write(s[i:i + 60] + "\n")


def write_bam(path, seqs, reads):
    chrs = list(seqs.keys())
    header = {'HD': {'VN': '1.0', 'SO': 'coordinate'}, 'SQ': [{'LN': len(seqs[c]), 'SN': c} for c in chrs]}
    recs = []
    for name, c, exons in reads:
        a = pysam.AlignedSegment()
        a.query_name = name
        seq = "".join(seqs[c][s - 1:e] for s, e in exons) + "A" * 25
        cigar = []
        for i, (s, e) in enumerate(exons):
            if i > 0:
                cigar.append((3, s - exons[i - 1][1] - 1))
            cigar.append((0, e - s + 1))
        cigar.append((4, 25))
        a.query_sequence = seq
        a.flag = 0
        a.reference_id = chrs.index(c)
        a.reference_start = exons[0][0] - 1
        a.mapping_quality = 60
        a.cigar = cigar
        a.query_qualities = pysam.qualitystring_to_array("I" * len(seq))
        recs.append(a)
    recs.sort(key=lambda r: (r.reference_id, r.reference_start, r.query_name))
    with pysam.AlignmentFile(path, "wb", header=header) as out:
        for r in recs:
            out.write(r)
    pysam.index(path)


def run_isoquant(fasta, gtf, bam, out):
    env = dict(os.environ)
    env["HOME"] = os.path.join(WORK, "home")
    os.makedirs(env["HOME"], exist_ok=True)
    cmd = [PY, os.path.join(ROOT, "isoquant.py"), "--reference", fasta, "--genedb", gtf, "--complete_genedb",
           "--bam", bam, "--data_type", "nanopore", "-o", out, "--threads", "1", "--no_gzip"]
    p = subprocess.run(cmd, env=env, stdout=subprocess.PIPE, stderr=subprocess.STDOUT, universal_newlines=True)
    if p.returncode != 0:
        print(p.stdout[-3000:])
        print("IsoQuant failed, cannot evaluate")
        sys.exit(2)


def parse_gtf(path):
    recs = []
    for l in open(path):
        if l.startswith("#") or not l.strip():
            continue
        v = l.rstrip("\n").split("\t")
        attrs = dict(re.findall(r'(\S+) "([^"]*)";', v[8]))
        recs.append((v[0], v[2], int(v[3]), int(v[4]), v[6], attrs))
    return recs


def main():
    shutil.rmtree(WORK, ignore_errors=True)
    os.makedirs(WORK)
    seq1, seq2 = make_chromosome(1), make_chromosome(2)

    # ---------------- run 1: assembly v1
    v1 = collections.OrderedDict([("chrA", seq1), ("chrB", seq2)])
    write_fasta(WORK + "/v1.fa", v1)
    with open(WORK + "/ref_v1.gtf", "w") as f:
        for c in v1:
            f.write('%s\tREF\tgene\t1000\t3300\t.\t+\t.\tgene_id "G_%s";\n' % (c, c))
            f.write('%s\tREF\ttranscript\t1000\t3300\t.\t+\t.\tgene_id "G_%s"; transcript_id "T1_%s";\n' % (c, c, c))
            for s, e in T1:
                f.write('%s\tREF\texon\t%d\t%d\t.\t+\t.\tgene_id "G_%s"; transcript_id "T1_%s";\n' % (c, s, e, c, c))
    reads = []
    for i in range(8):
        reads.append(("known_%d" % i, "chrA", T1))
        reads.append(("nnic_%d" % i, "chrA", NN))
        reads.append(("newgene_%d" % i, "chrA", NG))
    write_bam(WORK + "/run1.bam", v1, reads)
    run_isoquant(WORK + "/v1.fa", WORK + "/ref_v1.gtf", WORK + "/run1.bam", WORK + "/out1")
    ext1 = WORK + "/out1/OUT/OUT.extended_annotation.gtf"

    # ---------------- transfer of the IsoQuant annotation to assembly v2 (chromosome names are the other way round)
    swap = {"chrA": "chrB", "chrB": "chrA"}
    v2 = collections.OrderedDict([("chrA", seq2), ("chrB", seq1)])
    write_fasta(WORK + "/v2.fa", v2)
    with open(WORK + "/ref_v2.gtf", "w") as f:
        for l in open(ext1):
            if l.startswith("#"):
                continue
            v = l.split("\t")
            v[0] = swap[v[0]]
            f.write("\t".join(v))
    reference = parse_gtf(WORK + "/ref_v2.gtf")
    ref_transcripts = {r[5]["transcript_id"]: r[0] for r in reference if r[1] == "transcript"}
    ref_genes = {r[5]["gene_id"]: r[0] for r in reference if r[1] == "gene"}
    ref_exon_ids = {r[5]["exon_id"]: (r[0], r[2], r[3], r[4]) for r in reference if r[1] == "exon"}

    # ---------------- run 2: assembly v2, novel models on v2 chrA; the old ones (now on chrB) are expressed as well
    reads = []
    for i in range(8):
        reads.append(("known_%d" % i, "chrA", T1))
        reads.append(("nnic_%d" % i, "chrA", NN))
        reads.append(("newgene_%d" % i, "chrA", NG))
        reads.append(("old_nnic_%d" % i, "chrB", NN))
        reads.append(("old_newgene_%d" % i, "chrB", NG))
    write_bam(WORK + "/run2.bam", v2, reads)
    run_isoquant(WORK + "/v2.fa", WORK + "/ref_v2.gtf", WORK + "/run2.bam", WORK + "/out2")

    problems = []
    exon_by_id = {}
    for fname in ("OUT.transcript_models.gtf", "OUT.extended_annotation.gtf"):
        recs = parse_gtf(os.path.join(WORK, "out2/OUT", fname))
        t_seen = collections.defaultdict(list)
        g_seen = collections.defaultdict(list)
        for chr_id, ftype, start, end, strand, attrs in recs:
            if ftype == "transcript":
                t_seen[attrs["transcript_id"]].append("%s:%d-%d" % (chr_id, start, end))
            elif ftype == "gene":
                g_seen[attrs["gene_id"]].append("%s:%d-%d" % (chr_id, start, end))
            elif ftype == "exon":
                key = (chr_id, start, end, strand)
                other = exon_by_id.setdefault(attrs["exon_id"], key)
                if other != key:
                    problems.append("exon_id %s denotes two different exons: %s and %s" % (attrs["exon_id"], other, key))
        for t, places in sorted(t_seen.items()):
            if len(places) > 1:
                problems.append("%s: transcript_id %s occurs %d times (%s)%s" %
                                (fname, t, len(places), ", ".join(places),
                                 "; the id was present in the reference on %s" % ref_transcripts[t]
                                 if t in ref_transcripts else ""))
        for g, places in sorted(g_seen.items()):
            if len(places) > 1:
                problems.append("%s: gene_id %s occurs %d times (%s)%s" %
                                (fname, g, len(places), ", ".join(places),
                                 "; the id was present in the reference on %s" % ref_genes[g]
                                 if g in ref_genes else ""))
    # reference exon ids that now denote another exon
    for eid, key in sorted(ref_exon_ids.items()):
        if eid in exon_by_id and exon_by_id[eid] != key:
            problems.append("reference exon_id %s of exon %s is also given to exon %s" % (eid, key, exon_by_id[eid]))

    shutil.rmtree(WORK, ignore_errors=True)
    problems = sorted(set(problems))
    if problems:
        print("C17 VIOLATED: novel ids collide with ids of the reference annotation kept on another chromosome")
        for p in problems:
            print("  " + p)
        sys.exit(1)
    print("OK: all ids unique, no collision with the reference annotation")
    sys.exit(0)


if __name__ == "__main__":
    main()
