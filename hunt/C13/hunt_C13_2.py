#!/usr/bin/env python3
"""
C13 hunt, finding 2: one read is counted TWICE in the exon/intron tables when it crosses a split point of a long
(>= 32 kb) read cluster and the two sub-regions see different gene sets.

Same mechanism as hunt_C13_1.py (AlignmentCollector.split_coverage_regions / forward_alignments hand a read that
overlaps two sub-regions to both of them, each with the genes of the sub-region only), but here the two copies of the
read get different isoforms: in sub-region 1 only gene GA is loaded and the read R is called inconsistent with TA, in
sub-region 2 (GA and GB loaded) it is called inconsistent with TB.  MultimapResolver.select_best_inconsistent() compares
BasicReadAssignment.penalty_score, which is always 0.0 (min(0.0, score)), the copies are not "duplicates" (different
isoforms), so both are kept (inconsistent_ambiguous) and both are fed to ExonCounter / IntronCounter: every GA feature
that R includes or skips is counted twice.

Input: gene GA (1000-75200, +), gene GB (65000-78200, +); 4 reads of the 5' part of GA; ONE read R with exons
20000-20200 (GA), 65000-65200, 72000-72100, 78000-78200 (GB) - the only read between 20.2 kb and 65 kb; 4 reads of GB.
Control: two such bridging reads -> valley coverage 2 -> no split -> counts are right.

exit 1 = property violated, exit 0 = not violated
"""
import os, random, shutil, subprocess, sys
from collections import defaultdict
import pysam

REPO = os.path.dirname(os.path.abspath(__file__))
SCRATCH = "/tmp/huntscratch_C13/hunt_C13_2"
PY = "/venv/bin/python" if os.path.exists("/venv/bin/python") else sys.executable
DELTA = 6  # nanopore preset


def juncs(bl):
    return [(bl[i][1] + 1, bl[i + 1][0] - 1) for i in range(len(bl) - 1)]


def make_genome(length, introns_plus, introns_minus, seed=1):
    rnd = random.Random(seed)
    s = [rnd.choice("ACGT") for _ in range(length)]
    for i in range(2, length):  # no A/T runs, so no accidental polyA
        if s[i] == s[i - 1] == s[i - 2] and s[i] in "AT":
            s[i] = "C" if s[i] == "A" else "G"
    for a, b in introns_plus:
        s[a - 1:a + 1] = "GT"; s[b - 2:b] = "AG"
    for a, b in introns_minus:
        s[a - 1:a + 1] = "CT"; s[b - 2:b] = "AC"
    return "".join(s)


def write_inputs(wd, seq, genes, reads):
    os.makedirs(wd)
    with open(os.path.join(wd, "genome.fa"), "w") as f:
        f.write(">chr1\n")
        for i in range(0, len(seq), 60):
            f.write(seq[i:i + 60] + "\n")
    with open(os.path.join(wd, "annot.gtf"), "w") as f:
        for gid, strand, txs in genes:
            allex = [e for t in txs.values() for e in t]
            f.write('chr1\tsrc\tgene\t%d\t%d\t.\t%s\t.\tgene_id "%s";\n' %
                    (min(e[0] for e in allex), max(e[1] for e in allex), strand, gid))
            for tid, ex in txs.items():
                f.write('chr1\tsrc\ttranscript\t%d\t%d\t.\t%s\t.\tgene_id "%s"; transcript_id "%s";\n' %
                        (ex[0][0], ex[-1][1], strand, gid, tid))
                for a, b in ex:
                    f.write('chr1\tsrc\texon\t%d\t%d\t.\t%s\t.\tgene_id "%s"; transcript_id "%s";\n' %
                            (a, b, strand, gid, tid))
    h = pysam.AlignmentHeader.from_dict({"HD": {"VN": "1.0", "SO": "coordinate"},
                                         "SQ": [{"SN": "chr1", "LN": len(seq)}]})
    recs = []
    for name, blocks, reverse in reads:
        a = pysam.AlignedSegment(h)
        a.query_name = name
        cigar, qseq = [], ""
        for i, (s, e) in enumerate(blocks):
            if i:
                cigar.append((3, s - blocks[i - 1][1] - 1))
            cigar.append((0, e - s + 1))
            qseq += seq[s - 1:e]
        a.query_sequence = qseq
        a.flag = 16 if reverse else 0
        a.reference_id = 0
        a.reference_start = blocks[0][0] - 1
        a.mapping_quality = 60
        a.cigar = cigar
        a.query_qualities = pysam.qualitystring_to_array("I" * len(qseq))
        recs.append(a)
    recs.sort(key=lambda x: x.reference_start)
    bam = os.path.join(wd, "reads.bam")
    with pysam.AlignmentFile(bam, "wb", header=h) as out:
        for a in recs:
            out.write(a)
    pysam.index(bam)


def run_isoquant(wd):
    home = os.path.join(wd, "home")
    os.makedirs(home)
    cmd = [PY, os.path.join(REPO, "isoquant.py"), "--reference", os.path.join(wd, "genome.fa"),
           "--genedb", os.path.join(wd, "annot.gtf"), "--complete_genedb", "--bam", os.path.join(wd, "reads.bam"),
           "--data_type", "nanopore", "-o", os.path.join(wd, "out"), "--threads", "1", "--no_gzip", "--count_exons"]
    p = subprocess.run(cmd, env=dict(os.environ, HOME=home), stdout=subprocess.PIPE, stderr=subprocess.STDOUT,
                       text=True, timeout=300)
    if p.returncode != 0:
        print(p.stdout[-3000:])
        raise RuntimeError("IsoQuant failed")
    return os.path.join(wd, "out", "OUT")


def read_rows(path):
    rows = []
    for l in open(path):
        if l.startswith("#"):
            continue
        f = l.rstrip("\n").split("\t")
        rows.append(dict(start=int(f[1]), end=int(f[2]), strand=f[3], genes=f[5], inc=int(f[7]), exc=int(f[8]), line=l.rstrip("\n")))
    return rows


def recount(genes, reads, kind):
    """naive recount from the alignments; returns feature -> (strand string, gene list, include, exclude)"""
    ann = defaultdict(lambda: [set(), set()])
    for gid, strand, txs in genes:
        for ex in txs.values():
            for f in (ex if kind == "exon" else juncs(ex)):
                ann[f][0].add(strand); ann[f][1].add(gid)
    res = {}
    for f, (strands, gids) in ann.items():
        inc = exc = 0
        for name, bl, rev in reads:
            rf = bl if kind == "exon" else juncs(bl)
            if any(abs(x[0] - f[0]) <= DELTA and abs(x[1] - f[1]) <= DELTA for x in rf):
                inc += 1
            elif kind == "exon":
                # exon lies between the first and the last exon of the read
                if len(bl) > 1 and f[0] > bl[0][1] + DELTA and f[1] < bl[-1][0] - DELTA:
                    exc += 1
            else:
                # intron overlapped by the read span (all overlaps in this data set are > 1 kb or zero)
                if min(bl[-1][1], f[1]) - max(bl[0][0], f[0]) + 1 > 0:
                    exc += 1
        res[f] = ("".join(sorted(strands)), ",".join(sorted(gids)), inc, exc)
    return res


def compare(label, out_dir, genes, reads):
    problems = []
    for kind in ("exon", "intron"):
        rows = read_rows(os.path.join(out_dir, "OUT.%s_counts.tsv" % kind))
        truth = recount(genes, reads, kind)
        by_feature = defaultdict(list)
        for r in rows:
            by_feature[(r["start"], r["end"])].append(r)
        for f, (strand, gids, inc, exc) in sorted(truth.items()):
            got = by_feature.get(f, [])
            if inc == 0 and exc == 0 and not got:
                continue
            if len(got) != 1:
                problems.append("%s %s %d-%d: expected ONE row (strand %s, genes %s, include %d, exclude %d), got %d rows:\n%s"
                                % (label, kind, f[0], f[1], strand, gids, inc, exc, len(got),
                                   "\n".join("        " + r["line"] for r in got)))
                continue
            r = got[0]
            if (r["strand"], r["genes"], r["inc"], r["exc"]) != (strand, gids, inc, exc):
                problems.append("%s %s %d-%d: recount from alignments/annotation: strand %s genes %s include %d exclude %d;"
                                " reported: strand %s genes %s include %d exclude %d"
                                % (label, kind, f[0], f[1], strand, gids, inc, exc, r["strand"], r["genes"], r["inc"], r["exc"]))
    return problems


def scenario(label, n_bridging):
    GA = [(1000, 1200), (5000, 5200), (10000, 10200), (20000, 20200), (70000, 70200), (75000, 75200)]
    GB = [(65000, 65200), (72000, 72100), (78000, 78200)]
    R = [(20000, 20200), (65000, 65200), (72000, 72100), (78000, 78200)]
    genes = [("GA", "+", {"TA": GA}), ("GB", "+", {"TB": GB})]
    seq = make_genome(90000, juncs(GA) + juncs(GB) + juncs(R), [])
    reads = [("a%d" % i, GA[:4], False) for i in range(4)]
    reads += [("R%d" % i, R, False) for i in range(n_bridging)]       # the only read(s) between 20.2 kb and 65 kb
    reads += [("b%d" % i, GB, False) for i in range(4)]
    wd = os.path.join(SCRATCH, label)
    write_inputs(wd, seq, genes, reads)
    out = run_isoquant(wd)
    n_lines = defaultdict(int)
    for l in open(os.path.join(out, "OUT.read_assignments.tsv")):
        if not l.startswith("#"):
            n_lines[l.split("\t")[0]] += 1
    return compare(label, out, genes, reads), dict(n_lines), len(reads)


def main():
    if os.path.exists(SCRATCH):
        shutil.rmtree(SCRATCH)
    os.makedirs(SCRATCH)
    try:
        control, control_lines, n_control = scenario("control_two_bridging_reads", 2)
        single, single_lines, n_single = scenario("one_bridging_read", 1)
    finally:
        shutil.rmtree(SCRATCH, ignore_errors=True)
        try:
            os.rmdir(os.path.dirname(SCRATCH))
        except OSError:
            pass

    print("control (2 bridging reads, no split): %d reads, %d problems" % (n_control, len(control)))
    for p in control:
        print("   ", p)
    print("one bridging read (cluster is split in its intron): %d reads, %d problems" % (n_single, len(single)))
    for p in single:
        print("   ", p)
    print("    lines of read R0 in read_assignments.tsv: %d" % single_lines.get("R0", 0))
    if single:
        print("VIOLATION of C13: the read crossing the split point is counted twice "
              "(counts exceed the number of reads that can include/skip the feature)")
        return 1
    print("no violation observed")
    return 0


if __name__ == "__main__":
    sys.exit(main())
