#!/venv/bin/python
"""
C13, second pass, finding 1.

A read whose alignment span is cut by a split point of its read cluster (clusters longer than 32768 bp are cut at
coverage valleys) is profiled in the left sub-region against the genes that overlap *that sub-region only*
(AlignmentCollector.get_gene_info_for_region).  When both copies of the read get the same isoform, the copy of the
left sub-region survives the duplicate removal, so the read is counted ONCE (this is not the known double count),
but with a truncated gene set.  Consequences in OUT.exon_counts.tsv / OUT.intron_counts.tsv:

  (a) an exon / intron shared by gene A (overlaps the left sub-region) and gene X (does not) gets a FeatureInfo with
      gene list "A" and strand "+" from the left sub-region and another one with "A,X" / "+-" from the right
      sub-region.  Rows are keyed by (chr, start, end, strand): the feature is reported in TWO rows again, and the
      strand / gene list of the first row do not match the annotation.  When A and X are on the same strand there
      is one row, but its gene list is "A" instead of "A,X".
  (b) an exon that belongs to X only and is skipped by the read gets no exclusion from this read at all, although
      the read is processed exactly once and its alignment spans the exon.

Exit code 1 when the property is violated, 0 otherwise.
"""
import os
import shutil
import subprocess
import sys
from collections import defaultdict

import pysam

REPO = os.path.dirname(os.path.abspath(__file__))
WORK = "/tmp/hunt2scratch_C13/demo1"
CHROMS = [("chr1", 60000)]

# gene A (+): long gene; gene X: short gene that shares two exons with A and has one exon of its own (36500-36600)
A_EXONS = [(1000, 1200), (5000, 5200), (30000, 30200), (36000, 36100), (37000, 37200)]
X_EXONS = [(36000, 36100), (36500, 36600), (37000, 37200), (38000, 38200)]


def write_inputs(x_strand):
    if os.path.exists(WORK):
        shutil.rmtree(WORK)
    os.makedirs(os.path.join(WORK, "home"))
    import random
    rnd = random.Random(13)
    with open(os.path.join(WORK, "genome.fa"), "w") as f:
        f.write(">chr1\n")
        seq = "".join(rnd.choice("ACGT") for _ in range(CHROMS[0][1]))
        for i in range(0, len(seq), 60):
            f.write(seq[i:i + 60] + "\n")
    with open(os.path.join(WORK, "annot.gtf"), "w") as f:
        for gid, strand, exons in (("A", "+", A_EXONS), ("X", x_strand, X_EXONS)):
            f.write('chr1\tsrc\tgene\t%d\t%d\t.\t%s\t.\tgene_id "%s";\n' % (exons[0][0], exons[-1][1], strand, gid))
            f.write('chr1\tsrc\ttranscript\t%d\t%d\t.\t%s\t.\tgene_id "%s"; transcript_id "%s.T1";\n' %
                    (exons[0][0], exons[-1][1], strand, gid, gid))
            for s, e in exons:
                f.write('chr1\tsrc\texon\t%d\t%d\t.\t%s\t.\tgene_id "%s"; transcript_id "%s.T1";\n' %
                        (s, e, strand, gid, gid))
    # one read of A that spans 36 kb (its third intron holds the split point), three full-length reads of X
    reads = [("longA", [(1000, 1200), (36000, 36100), (37000, 37150)], False)]
    for i in range(3):
        reads.append(("x%d" % i, X_EXONS, x_strand == "-"))
    header = {"HD": {"VN": "1.0", "SO": "coordinate"}, "SQ": [{"SN": n, "LN": l} for n, l in CHROMS]}
    bam = os.path.join(WORK, "reads.bam")
    with pysam.AlignmentFile(bam, "wb", header=header) as out:
        for name, blocks, rev in sorted(reads, key=lambda r: r[1][0][0]):
            a = pysam.AlignedSegment()
            a.query_name = name
            cigar = []
            for i, (s, e) in enumerate(blocks):
                if i:
                    cigar.append((3, s - blocks[i - 1][1] - 1))
                cigar.append((0, e - s + 1))
            qlen = sum(l for op, l in cigar if op == 0)
            a.query_sequence = "C" * qlen
            a.flag = 16 if rev else 0
            a.reference_id = 0
            a.reference_start = blocks[0][0] - 1
            a.mapping_quality = 60
            a.cigartuples = cigar
            a.query_qualities = pysam.qualitystring_to_array("I" * qlen)
            out.write(a)
    pysam.index(bam)
    return reads


def run():
    env = dict(os.environ)
    env["HOME"] = os.path.join(WORK, "home")
    out = os.path.join(WORK, "out")
    cmd = [sys.executable, os.path.join(REPO, "isoquant.py"), "--reference", os.path.join(WORK, "genome.fa"),
           "--genedb", os.path.join(WORK, "annot.gtf"), "--complete_genedb", "--bam", os.path.join(WORK, "reads.bam"),
           "--data_type", "nanopore", "-o", out, "--threads", "1", "--no_gzip", "--count_exons",
           "--no_model_construction"]
    p = subprocess.run(cmd, env=env, stdout=subprocess.PIPE, stderr=subprocess.STDOUT, text=True)
    if p.returncode != 0:
        print(p.stdout[-3000:])
        print("IsoQuant failed, cannot check")
        sys.exit(2)
    return os.path.join(out, "OUT")


def table(path):
    rows = []
    for line in open(path):
        if line.startswith("#"):
            continue
        fs = line.rstrip("\n").split("\t")
        rows.append(dict(chr=fs[0], start=int(fs[1]), end=int(fs[2]), strand=fs[3], genes=fs[5], inc=int(fs[7]),
                         exc=int(fs[8]), raw=line.rstrip("\n")))
    return rows


def check(x_strand):
    problems = []
    reads = write_inputs(x_strand)
    outdir = run()
    listed = defaultdict(int)
    for line in open(os.path.join(outdir, "OUT.read_assignments.tsv")):
        if not line.startswith("#"):
            listed[line.split("\t")[0]] += 1
    print("reads listed in read_assignments.tsv: %s" % dict(listed))
    if listed["longA"] != 1:
        print("(read longA is not processed exactly once - this demonstration expects that)")

    # annotation: feature -> strands, genes
    ann = {"exon": defaultdict(lambda: (set(), set())), "intron": defaultdict(lambda: (set(), set()))}
    for gid, strand, exons in (("A", "+", A_EXONS), ("X", x_strand, X_EXONS)):
        for e in exons:
            ann["exon"][e][0].add(strand)
            ann["exon"][e][1].add(gid)
        for i in range(len(exons) - 1):
            k = (exons[i][1] + 1, exons[i + 1][0] - 1)
            ann["intron"][k][0].add(strand)
            ann["intron"][k][1].add(gid)

    for kind in ("exon", "intron"):
        rows = table(os.path.join(outdir, "OUT.%s_counts.tsv" % kind))
        print("--- OUT.%s_counts.tsv" % kind)
        for r in rows:
            print(r["raw"])
        seen = defaultdict(list)
        for r in rows:
            seen[(r["chr"], r["start"], r["end"])].append(r)
        for k, rs in seen.items():
            if len(rs) > 1:
                problems.append("%s %s:%d-%d is reported in %d rows: %s" %
                                (kind, k[0], k[1], k[2], len(rs), " | ".join(x["raw"] for x in rs)))
            strands, genes = ann[kind][(k[1], k[2])]
            for r in rs:
                if r["strand"] != "".join(sorted(strands)) or r["genes"] != ",".join(sorted(genes)):
                    problems.append("%s row '%s': annotation says strand %s, genes %s" %
                                    (kind, r["raw"], "".join(sorted(strands)), ",".join(sorted(genes))))

    # (b) exon 36500-36600 (gene X only) lies between the first and the last exon of read longA, which does not
    # contain it: one exclusion is expected from longA (reads x0..x2 include the exon)
    rows = [r for r in table(os.path.join(outdir, "OUT.exon_counts.tsv")) if (r["start"], r["end"]) == (36500, 36600)]
    exc = sum(r["exc"] for r in rows)
    inc = sum(r["inc"] for r in rows)
    if listed["longA"] >= 1 and (exc != 1 or inc != 3):
        problems.append("exon chr1:36500-36600: expected include 3 (x0,x1,x2) and exclude 1 (longA, blocks %s), "
                        "reported include %d exclude %d" % (reads[0][1], inc, exc))
    return problems


if __name__ == "__main__":
    all_problems = []
    for x_strand in ("-", "+"):
        print("=========== gene X on strand %s" % x_strand)
        ps = check(x_strand)
        for p in ps:
            print("VIOLATION: " + p)
        all_problems += ps
    shutil.rmtree(WORK, ignore_errors=True)
    if all_problems:
        print("\nC13 violated: %d problems" % len(all_problems))
        sys.exit(1)
    print("\nno violation observed")
    sys.exit(0)
