#!/usr/bin/env python3
"""
C13 hunt, finding 3 (depends on how "(within delta)" is read - see HUNT_C13.md): an annotated exon/intron that a read
matches within delta is counted as EXCLUDED by that read when another annotated feature matches the same read
exon/intron better.

OverlappingFeaturesProfileConstructor.construct_profile_for_features() ("eliminating non unique features") sets the
gene profile of every worse match to -1.  For an exon that coincides (within delta) with the FIRST exon of the read this
exclusion cannot be justified by either reading of the property: the exon does not lie between the first and the last
exon of the read, so it can only be included (it is contained within delta) or not counted at all.

Input (nanopore preset, delta = 6): gene G1 (+) with
   T1: 1000-1200, 2000-2100, 3000-3200
   T2: 1000-1204, 2003-2100, 3000-3200
5 reads with exactly the exons of T1.

exit 1 = property violated, exit 0 = not violated
"""
import os, random, shutil, subprocess, sys
from collections import defaultdict
import pysam

REPO = os.path.dirname(os.path.abspath(__file__))
SCRATCH = "/tmp/huntscratch_C13/hunt_C13_3"
PY = "/venv/bin/python" if os.path.exists("/venv/bin/python") else sys.executable
DELTA = 6  # nanopore preset


def juncs(bl):
    return [(bl[i][1] + 1, bl[i + 1][0] - 1) for i in range(len(bl) - 1)]


def make_genome(length, introns_plus, introns_minus, seed=1):
    rnd = random.Random(seed)
    s = [rnd.choice("ACGT") for _ in range(length)]
    for i in range(2, length):  # no A/T runs, so no accidental polyA
        if s[i] == s[i - 1] == s[i - 2] and s[i] in "AT":
            s[i] = "C" if s[i] == "A" else "G"
    for a, b in introns_plus:
        s[a - 1:a + 1] = "GT"; s[b - 2:b] = "AG"
    for a, b in introns_minus:
        s[a - 1:a + 1] = "CT"; s[b - 2:b] = "AC"
    return "".join(s)


def write_inputs(wd, seq, genes, reads):
    os.makedirs(wd)
    with open(os.path.join(wd, "genome.fa"), "w") as f:
        f.write(">chr1\n")
        for i in range(0, len(seq), 60):
            f.write(seq[i:i + 60] + "\n")
    with open(os.path.join(wd, "annot.gtf"), "w") as f:
        for gid, strand, txs in genes:
            allex = [e for t in txs.values() for e in t]
            f.write('chr1\tsrc\tgene\t%d\t%d\t.\t%s\t.\tgene_id "%s";\n' %
                    (min(e[0] for e in allex), max(e[1] for e in allex), strand, gid))
            for tid, ex in txs.items():
                f.write('chr1\tsrc\ttranscript\t%d\t%d\t.\t%s\t.\tgene_id "%s"; transcript_id "%s";\n' %
                        (ex[0][0], ex[-1][1], strand, gid, tid))
                for a, b in ex:
                    f.write('chr1\tsrc\texon\t%d\t%d\t.\t%s\t.\tgene_id "%s"; transcript_id "%s";\n' %
                            (a, b, strand, gid, tid))
    h = pysam.AlignmentHeader.from_dict({"HD": {"VN": "1.0", "SO": "coordinate"},
                                         "SQ": [{"SN": "chr1", "LN": len(seq)}]})
    recs = []
    for name, blocks, reverse in reads:
        a = pysam.AlignedSegment(h)
        a.query_name = name
        cigar, qseq = [], ""
        for i, (s, e) in enumerate(blocks):
            if i:
                cigar.append((3, s - blocks[i - 1][1] - 1))
            cigar.append((0, e - s + 1))
            qseq += seq[s - 1:e]
        a.query_sequence = qseq
        a.flag = 16 if reverse else 0
        a.reference_id = 0
        a.reference_start = blocks[0][0] - 1
        a.mapping_quality = 60
        a.cigar = cigar
        a.query_qualities = pysam.qualitystring_to_array("I" * len(qseq))
        recs.append(a)
    recs.sort(key=lambda x: x.reference_start)
    bam = os.path.join(wd, "reads.bam")
    with pysam.AlignmentFile(bam, "wb", header=h) as out:
        for a in recs:
            out.write(a)
    pysam.index(bam)


def run_isoquant(wd):
    home = os.path.join(wd, "home")
    os.makedirs(home)
    cmd = [PY, os.path.join(REPO, "isoquant.py"), "--reference", os.path.join(wd, "genome.fa"),
           "--genedb", os.path.join(wd, "annot.gtf"), "--complete_genedb", "--bam", os.path.join(wd, "reads.bam"),
           "--data_type", "nanopore", "-o", os.path.join(wd, "out"), "--threads", "1", "--no_gzip", "--count_exons"]
    p = subprocess.run(cmd, env=dict(os.environ, HOME=home), stdout=subprocess.PIPE, stderr=subprocess.STDOUT,
                       text=True, timeout=300)
    if p.returncode != 0:
        print(p.stdout[-3000:])
        raise RuntimeError("IsoQuant failed")
    return os.path.join(wd, "out", "OUT")


def read_rows(path):
    rows = []
    for l in open(path):
        if l.startswith("#"):
            continue
        f = l.rstrip("\n").split("\t")
        rows.append(dict(start=int(f[1]), end=int(f[2]), strand=f[3], genes=f[5], inc=int(f[7]), exc=int(f[8]), line=l.rstrip("\n")))
    return rows


def main():
    T1 = [(1000, 1200), (2000, 2100), (3000, 3200)]
    T2 = [(1000, 1204), (2003, 2100), (3000, 3200)]
    genes = [("G1", "+", {"T1": T1, "T2": T2})]
    seq = make_genome(6000, juncs(T1) + juncs(T2), [])
    reads = [("r%d" % i, T1, False) for i in range(5)]
    if os.path.exists(SCRATCH):
        shutil.rmtree(SCRATCH)
    os.makedirs(SCRATCH)
    try:
        wd = os.path.join(SCRATCH, "similar")
        write_inputs(wd, seq, genes, reads)
        out = run_isoquant(wd)
        exon_rows = {(r["start"], r["end"]): r for r in read_rows(os.path.join(out, "OUT.exon_counts.tsv"))}
        intron_rows = {(r["start"], r["end"]): r for r in read_rows(os.path.join(out, "OUT.intron_counts.tsv"))}
    finally:
        shutil.rmtree(SCRATCH, ignore_errors=True)
        try:
            os.rmdir(os.path.dirname(SCRATCH))
        except OSError:
            pass
    for r in list(exon_rows.values()) + list(intron_rows.values()):
        print("   ", r["line"])
    bad = []
    # terminal exon of T2: overlaps the first exon of every read, cannot be "between the first and the last exon"
    r = exon_rows.get((1000, 1204))
    if r is not None and r["exc"] != 0:
        bad.append("exon 1000-1204 coincides (within delta) with the FIRST exon 1000-1200 of all 5 reads, "
                   "but has exclude count %d (include %d); exclusion requires an exon between the first and last read exon"
                   % (r["exc"], r["inc"]))
    # internal exon of T2: all reads contain it within delta=6 (read exon 2000-2100)
    r = exon_rows.get((2003, 2100))
    if r is None or r["inc"] != 5 or r["exc"] != 0:
        bad.append("exon 2003-2100 is contained within delta=6 by all 5 reads (read exon 2000-2100): expected include 5 / exclude 0, "
                   "reported include %s / exclude %s" % ((r["inc"], r["exc"]) if r else ("no row", "no row")))
    r = intron_rows.get((1205, 2002))
    if r is None or r["inc"] != 5 or r["exc"] != 0:
        bad.append("intron 1205-2002 is contained within delta=6 by all 5 reads (read intron 1201-1999): expected include 5 / exclude 0, "
                   "reported include %s / exclude %s" % ((r["inc"], r["exc"]) if r else ("no row", "no row")))
    for b in bad:
        print(b)
    if bad:
        print("VIOLATION of C13 (strict reading): features matched within delta are counted as excluded when a similar feature matches better")
        return 1
    print("no violation observed")
    return 0


if __name__ == "__main__":
    sys.exit(main())
