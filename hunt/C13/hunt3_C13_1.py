#!/usr/bin/env python3
# C13, finding 1 (borderline, features not longer than delta):
# a read that carries an annotated micro-exon as a block of its own, displaced by no more than delta but without a
# common base with the annotated position, is counted as EXCLUDING the micro-exon (it contains it "within delta"
# by the comparator the code itself uses, equal_ranges(delta)), and - for a displacement to the right - also as
# excluding the annotated intron that follows the micro-exon, although the read has this intron within delta.
# The same displacement with one common base is counted as included.
# Cause: OverlappingFeaturesProfileConstructor.construct_profile_for_features (src/long_read_profiles.py:125-144):
# the positional tests ("read feature left of known feature", "known feature left of read feature") come before the
# delta comparator, and a known feature that merely touches the current read feature is dropped (gene_pos += 1)
# without being compared with the next read feature.
import os
import sys
import subprocess
import shutil
import random
import pysam

HERE = os.path.dirname(os.path.abspath(__file__))
ISOQUANT = os.path.join(HERE, "isoquant.py")
PYTHON = "/venv/bin/python" if os.path.exists("/venv/bin/python") else sys.executable
WD = "/tmp/hunt3scratch_C13/demo1"
DELTA = 6   # default of --data_type nanopore


def within_delta(a, b):
    return abs(a[0] - b[0]) <= DELTA and abs(a[1] - b[1]) <= DELTA


def main():
    shutil.rmtree(WD, ignore_errors=True)
    os.makedirs(os.path.join(WD, "home"))
    rng = random.Random(1)
    seq = "".join(rng.choice("ACGT") for _ in range(4000))
    fa = os.path.join(WD, "g.fa")
    with open(fa, "w") as f:
        f.write(">chr1\n")
        for i in range(0, len(seq), 60):
            f.write(seq[i:i + 60] + "\n")
    micro = (1000, 1003)            # 4 bp micro-exon
    t1 = [(500, 600), micro, (2000, 2100)]
    t2 = [(500, 600), (2000, 2100)]
    gtf = os.path.join(WD, "a.gtf")
    with open(gtf, "w") as f:
        f.write('chr1\tt\tgene\t500\t2100\t.\t+\t.\tgene_id "G";\n')
        for tid, ex in (("G.t1", t1), ("G.t2", t2)):
            f.write('chr1\tt\ttranscript\t500\t2100\t.\t+\t.\tgene_id "G"; transcript_id "%s";\n' % tid)
            for s, e in ex:
                f.write('chr1\tt\texon\t%d\t%d\t.\t+\t.\tgene_id "G"; transcript_id "%s";\n' % (s, e, tid))
    # the middle block of every read is the micro-exon, displaced by 0, +2 (2 common bases), +5 and -5 (no common base)
    shifts = {"exact": 0, "shift_p2": 2, "shift_p5": 5, "shift_m5": -5}
    header = pysam.AlignmentHeader.from_dict({"HD": {"VN": "1.0", "SO": "coordinate"},
                                              "SQ": [{"SN": "chr1", "LN": len(seq)}]})
    bam = os.path.join(WD, "r.bam")
    read_blocks = {}
    with pysam.AlignmentFile(bam, "wb", header=header) as out:
        for name, sh in shifts.items():
            blocks = [(500, 600), (micro[0] + sh, micro[1] + sh), (2000, 2100)]
            read_blocks[name] = blocks
            a = pysam.AlignedSegment(header)
            a.query_name = name
            a.reference_id = 0
            a.reference_start = blocks[0][0] - 1
            a.mapping_quality = 60
            a.flag = 0
            cigar = []
            s = ""
            for i, (bs, be) in enumerate(blocks):
                if i:
                    cigar.append((3, bs - blocks[i - 1][1] - 1))
                cigar.append((0, be - bs + 1))
                s += seq[bs - 1:be]
            a.cigartuples = cigar
            a.query_sequence = s
            a.query_qualities = pysam.qualitystring_to_array("I" * len(s))
            out.write(a)
    pysam.index(bam)
    env = dict(os.environ, HOME=os.path.join(WD, "home"))
    cmd = [PYTHON, ISOQUANT, "--reference", fa, "--genedb", gtf, "--complete_genedb", "--bam", bam,
           "--data_type", "nanopore", "-o", os.path.join(WD, "out"), "--threads", "1", "--no_gzip", "--count_exons",
           "--no_model_construction"]
    p = subprocess.run(cmd, env=env, stdout=subprocess.PIPE, stderr=subprocess.STDOUT, text=True)
    if p.returncode != 0:
        print(p.stdout[-3000:])
        print("IsoQuant failed")
        return 2

    def reported(file_name):
        res = {}
        for l in open(os.path.join(WD, "out", "OUT", file_name)):
            if l.startswith("#"):
                continue
            v = l.rstrip("\n").split("\t")
            res[(int(v[1]), int(v[2]))] = (int(v[7]), int(v[8]))
        return res

    rep_exons = reported("OUT.exon_counts.tsv")
    rep_introns = reported("OUT.intron_counts.tsv")
    bad = 0
    # recount by the letter of the statement: a read contains a feature when one of its own exons (introns) has both
    # ends within delta of it; otherwise it skips an exon lying between its first and last exon / an intron that its
    # span overlaps (all features of this gene lie inside the span of every read)
    for feature, is_exon, rep in ((micro, True, rep_exons), ((601, 999), False, rep_introns),
                                  ((1004, 1999), False, rep_introns)):
        inc = exc = 0
        for name, blocks in read_blocks.items():
            own = blocks if is_exon else [(blocks[i][1] + 1, blocks[i + 1][0] - 1) for i in range(len(blocks) - 1)]
            if any(within_delta(x, feature) for x in own):
                inc += 1
            else:
                exc += 1
        got = rep.get(feature, (0, 0))
        flag = "" if got == (inc, exc) else "   <-- differs"
        if flag:
            bad += 1
        print("%s %s: reported include=%d exclude=%d, recount include=%d exclude=%d%s" %
              ("exon  " if is_exon else "intron", str(feature), got[0], got[1], inc, exc, flag))
    shutil.rmtree(os.path.join(WD, "out"), ignore_errors=True)
    if bad:
        print("VIOLATION: blocks displaced by 5 bp (<= delta = %d) from a 4-bp micro-exon are counted as reads skipping "
              "the micro-exon (and, displaced to the right, the intron behind it); displaced by 2 bp they are "
              "counted as containing both" % DELTA)
        return 1
    print("OK")
    return 0


if __name__ == "__main__":
    sys.exit(main())
