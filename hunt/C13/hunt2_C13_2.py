#!/venv/bin/python
"""
C13, second pass, finding 2.

"Contains the feature (within delta)" is implemented as equal_ranges(read_feature, known_feature, delta), but in
OverlappingFeaturesProfileConstructor.construct_profile_for_features (src/long_read_profiles.py) the two tests
"read feature lies left of the known feature" / "known feature lies left of the read feature" are made BEFORE the
comparator.  For an annotated feature that is not longer than delta (micro-exon, micro-intron) a read feature that is
shifted by at most delta, but far enough not to overlap the annotated one any more, is therefore never compared:
the annotated feature gets -1 (excluded) - or 0 for a terminal one - instead of +1.

Annotation: one gene, exons 100-300, 1000-1004 (5 bp micro-exon), 2000-2200.  delta = 6 (nanopore default).
Three reads, the middle block is the micro-exon shifted by 0, 3 and 5 bp.  All three middle blocks equal the
annotated micro-exon within delta, so the property demands include = 3, exclude = 0 for chr1:1000-1004
(and include = 3 for both flanking introns).  IsoQuant reports include = 2, exclude = 1: the read shifted by 3 bp is
included, the read shifted by 5 bp is excluded.

Exit code 1 when the property is violated, 0 otherwise.
"""
import os
import random
import shutil
import subprocess
import sys
from functools import partial

import pysam

REPO = os.path.dirname(os.path.abspath(__file__))
WORK = "/tmp/hunt2scratch_C13/demo2"
DELTA = 6
EXONS = [(100, 300), (1000, 1004), (2000, 2200)]
READS = [("shift0", [(100, 300), (1000, 1004), (2000, 2200)]),
         ("shift3", [(100, 300), (1003, 1007), (2000, 2200)]),
         ("shift5", [(100, 300), (1005, 1009), (2000, 2200)])]


def function_level():
    """the same on the level of the profile constructor, without running the pipeline"""
    sys.path.insert(0, REPO)
    from src.long_read_profiles import OverlappingFeaturesProfileConstructor
    from src.common import equal_ranges
    constructor = OverlappingFeaturesProfileConstructor(EXONS, (EXONS[0][0], EXONS[-1][1]),
                                                        comparator=partial(equal_ranges, delta=DELTA), delta=DELTA)
    bad = []
    for name, blocks in READS:
        profile = constructor.construct_exon_profile(blocks).gene_profile
        within = equal_ranges(blocks[1], EXONS[1], DELTA)
        print("read %s middle block %s: equal_ranges(block, (1000, 1004), %d) = %s, exon profile = %s" %
              (name, blocks[1], DELTA, within, profile))
        if within and profile[1] != 1:
            bad.append("read %s contains exon 1000-1004 within delta=%d, exon profile says %d" %
                       (name, DELTA, profile[1]))
    return bad


def pipeline_level():
    if os.path.exists(WORK):
        shutil.rmtree(WORK)
    os.makedirs(os.path.join(WORK, "home"))
    rnd = random.Random(7)
    with open(os.path.join(WORK, "genome.fa"), "w") as f:
        f.write(">chr1\n")
        seq = "".join(rnd.choice("ACGT") for _ in range(5000))
        for i in range(0, len(seq), 60):
            f.write(seq[i:i + 60] + "\n")
    with open(os.path.join(WORK, "annot.gtf"), "w") as f:
        f.write('chr1\tsrc\tgene\t100\t2200\t.\t+\t.\tgene_id "G";\n')
        f.write('chr1\tsrc\ttranscript\t100\t2200\t.\t+\t.\tgene_id "G"; transcript_id "G.T1";\n')
        for s, e in EXONS:
            f.write('chr1\tsrc\texon\t%d\t%d\t.\t+\t.\tgene_id "G"; transcript_id "G.T1";\n' % (s, e))
    header = {"HD": {"VN": "1.0", "SO": "coordinate"}, "SQ": [{"SN": "chr1", "LN": 5000}]}
    bam = os.path.join(WORK, "reads.bam")
    with pysam.AlignmentFile(bam, "wb", header=header) as out:
        for name, blocks in READS:
            a = pysam.AlignedSegment()
            a.query_name = name
            cigar = []
            for i, (s, e) in enumerate(blocks):
                if i:
                    cigar.append((3, s - blocks[i - 1][1] - 1))
                cigar.append((0, e - s + 1))
            qlen = sum(l for op, l in cigar if op == 0)
            a.query_sequence = "C" * qlen
            a.flag = 0
            a.reference_id = 0
            a.reference_start = blocks[0][0] - 1
            a.mapping_quality = 60
            a.cigartuples = cigar
            a.query_qualities = pysam.qualitystring_to_array("I" * qlen)
            out.write(a)
    pysam.index(bam)
    env = dict(os.environ)
    env["HOME"] = os.path.join(WORK, "home")
    out = os.path.join(WORK, "out")
    cmd = [sys.executable, os.path.join(REPO, "isoquant.py"), "--reference", os.path.join(WORK, "genome.fa"),
           "--genedb", os.path.join(WORK, "annot.gtf"), "--complete_genedb", "--bam", bam,
           "--data_type", "nanopore", "-o", out, "--threads", "1", "--no_gzip", "--count_exons",
           "--no_model_construction"]
    p = subprocess.run(cmd, env=env, stdout=subprocess.PIPE, stderr=subprocess.STDOUT, text=True)
    if p.returncode != 0:
        print(p.stdout[-3000:])
        print("IsoQuant failed, cannot check")
        sys.exit(2)
    processed = set(l.split("\t")[0] for l in open(os.path.join(out, "OUT", "OUT.read_assignments.tsv"))
                    if not l.startswith("#"))
    print("processed reads: %s" % sorted(processed))
    bad = []
    expected = {("exon", 1000, 1004): (len(processed), 0),
                ("intron", 301, 999): (len(processed), 0),
                ("intron", 1005, 1999): (len(processed), 0)}
    for kind in ("exon", "intron"):
        print("--- OUT.%s_counts.tsv" % kind)
        found = {}
        for line in open(os.path.join(out, "OUT", "OUT.%s_counts.tsv" % kind)):
            if line.startswith("#"):
                continue
            print(line.rstrip("\n"))
            fs = line.rstrip("\n").split("\t")
            found[(kind, int(fs[1]), int(fs[2]))] = (int(fs[7]), int(fs[8]))
        for k, exp in expected.items():
            if k[0] != kind:
                continue
            got = found.get(k, (0, 0))
            if got != exp:
                bad.append("%s chr1:%d-%d: every processed read contains it within delta=%d, expected include %d "
                           "exclude %d, reported include %d exclude %d" % (kind, k[1], k[2], DELTA, exp[0], exp[1],
                                                                            got[0], got[1]))
    shutil.rmtree(WORK, ignore_errors=True)
    return bad


if __name__ == "__main__":
    problems = function_level() + pipeline_level()
    for p in problems:
        print("VIOLATION: " + p)
    if problems:
        print("\nC13 violated: %d problems" % len(problems))
        sys.exit(1)
    print("\nno violation observed")
    sys.exit(0)
