#!/venv/bin/python
"""
C20, second pass, finding 1: two runs that start at the same time on the same bgzip-compressed reference
(documented: "can be gzipped") are not independent: pyfaidx writes the side index <reference>.gzi next to the
reference directly under its final name (open(..., 'wb') truncates, data arrive at close), and
src/dataset_processor.py:open_indexed_fasta() protects only the .fai with a temporary name.  A run that opens the
reference while the other run is inside that write sees an existing, empty .gzi, trusts it and dies.

The interleaving is forced, not waited for: run B is the unchanged isoquant.py started through runpy in a process in
which pyfaidx.Faidx.write_gzi is delayed between "open for writing" and "write" (what a slow/shared disk or an
unlucky time slice does).  Run A is the plain unchanged command line.  Alone, run A succeeds (checked first).

exit 1 = property violated, exit 0 = not reproduced.
"""
import os
import random
import shutil
import subprocess
import sys
import time

import pysam

REPO = os.path.dirname(os.path.abspath(__file__))
SCRATCH = "/tmp/hunt2scratch_C20/demo1"
PY = "/venv/bin/python"


def make_inputs(d):
    rnd = random.Random(7)
    seqs = {}
    with open(os.path.join(d, "genome.fa"), "w") as f:
        for name in ("chr1", "chr2"):
            s = [rnd.choice("ACGT") for _ in range(5000)]
            for (a, b) in [(1200, 1500), (1700, 2000)]:
                s[a:a + 2] = "GT"
                s[b - 2:b] = "AG"
            seqs[name] = "".join(s)
            f.write(">%s\n" % name)
            for i in range(0, 5000, 60):
                f.write(seqs[name][i:i + 60] + "\n")
    pysam.tabix_compress(os.path.join(d, "genome.fa"), os.path.join(d, "genome.fa.gz"), force=True)   # BGZF
    os.remove(os.path.join(d, "genome.fa"))
    with open(os.path.join(d, "annot.gtf"), "w") as f:
        for chrom in seqs:
            g, t = "G_" + chrom, "T_" + chrom
            f.write("\t".join([chrom, "x", "gene", "1001", "2300", ".", "+", ".", 'gene_id "%s";' % g]) + "\n")
            f.write("\t".join([chrom, "x", "transcript", "1001", "2300", ".", "+", ".",
                               'gene_id "%s"; transcript_id "%s";' % (g, t)]) + "\n")
            for (s, e) in [(1001, 1200), (1501, 1700), (2001, 2300)]:
                f.write("\t".join([chrom, "x", "exon", str(s), str(e), ".", "+", ".",
                                   'gene_id "%s"; transcript_id "%s";' % (g, t)]) + "\n")
    header = {"HD": {"VN": "1.0", "SO": "coordinate"}, "SQ": [{"SN": k, "LN": len(v)} for k, v in seqs.items()]}
    with pysam.AlignmentFile(os.path.join(d, "reads.bam"), "wb", header=header) as out:
        for ci, chrom in enumerate(seqs):
            for k in range(5):
                a = pysam.AlignedSegment()
                a.query_name = "read_%s_%d" % (chrom, k)
                a.query_sequence = seqs[chrom][1000:1200] + seqs[chrom][1500:1700] + seqs[chrom][2000:2300]
                a.flag = 0
                a.reference_id = ci
                a.reference_start = 1000
                a.mapping_quality = 60
                a.cigar = [(0, 200), (3, 300), (0, 200), (3, 300), (0, 300)]
                a.query_qualities = pysam.qualitystring_to_array("I" * 700)
                out.write(a)
    pysam.index(os.path.join(d, "reads.bam"))


def isoquant_args(d, out):
    return [os.path.join(REPO, "isoquant.py"), "--reference", os.path.join(d, "genome.fa.gz"),
            "--genedb", os.path.join(d, "annot.gtf"), "--complete_genedb", "--bam", os.path.join(d, "reads.bam"),
            "--data_type", "nanopore", "-o", out, "--threads", "1", "--no_gzip"]


# run B: unchanged IsoQuant code; only the *timing* of pyfaidx's write of the .gzi file is stretched
DELAYED_RUNNER = r"""
import os, sys, time, struct, runpy
import pyfaidx
flag, release = sys.argv[1], sys.argv[2]
def slow_write_gzi(self):
    with self._open_gzi('wb') as bzi_file:            # same statements as pyfaidx.Faidx.write_gzi ...
        if not os.path.exists(flag):
            open(flag, "w").close()
            deadline = time.time() + 40
            while not os.path.exists(release) and time.time() < deadline:   # ... with a pause after the open
                time.sleep(0.05)
        bzi_file.write(struct.pack('<Q', len(self.gzi_index) - 1))
        for block in self.gzi_index[1:]:
            bzi_file.write(block.as_bytes())
pyfaidx.Faidx.write_gzi = slow_write_gzi
sys.argv = sys.argv[3:]
sys.path.insert(0, os.path.dirname(os.path.abspath(sys.argv[0])))
runpy.run_path(sys.argv[0], run_name="__main__")
"""


def main():
    shutil.rmtree(SCRATCH, ignore_errors=True)
    os.makedirs(SCRATCH)
    problems = []
    try:
        # 1. what run A does alone (own copy of the inputs, own HOME)
        solo = os.path.join(SCRATCH, "solo")
        os.makedirs(os.path.join(solo, "home"))
        make_inputs(solo)
        r = subprocess.run([PY] + isoquant_args(solo, os.path.join(solo, "out")),
                           env=dict(os.environ, HOME=os.path.join(solo, "home")), capture_output=True, text=True)
        if r.returncode != 0:
            print("unexpected: the run fails even alone\n" + r.stdout[-2000:] + r.stderr[-2000:])
            return 0
        print("alone: exit code 0, side files next to the reference: %s" %
              sorted(f for f in os.listdir(solo) if f.startswith("genome.fa.gz.")))

        # 2. the same two runs at the same time, one HOME, separate output folders
        conc = os.path.join(SCRATCH, "conc")
        home = os.path.join(conc, "home")
        os.makedirs(home)
        make_inputs(conc)
        env = dict(os.environ, HOME=home)
        flag, release = os.path.join(conc, "B_is_writing_gzi"), os.path.join(conc, "release_B")
        runner = os.path.join(conc, "delayed_runner.py")
        with open(runner, "w") as f:
            f.write(DELAYED_RUNNER)
        run_b = subprocess.Popen([PY, runner, flag, release] + isoquant_args(conc, os.path.join(conc, "outB")),
                                 env=env, stdout=subprocess.PIPE, stderr=subprocess.STDOUT, text=True)
        deadline = time.time() + 40
        while not os.path.exists(flag) and time.time() < deadline and run_b.poll() is None:
            time.sleep(0.05)
        if not os.path.exists(flag):
            open(release, "w").close()
            print("could not set up the interleaving\n" + run_b.communicate()[0][-2000:])
            return 0
        gzi = os.path.join(conc, "genome.fa.gz.gzi")
        print("run B is inside pyfaidx write_gzi: %s exists with %d bytes; starting run A now" %
              (gzi, os.path.getsize(gzi)))
        run_a = subprocess.run([PY] + isoquant_args(conc, os.path.join(conc, "outA")), env=env,
                               capture_output=True, text=True)
        open(release, "w").close()
        out_b = run_b.communicate()[0]
        print("run B exit code %d, run A exit code %d" % (run_b.returncode, run_a.returncode))
        if run_a.returncode != 0 or not os.path.exists(os.path.join(conc, "outA", "OUT", "OUT.transcript_counts.tsv")):
            tail = [l for l in (run_a.stdout + run_a.stderr).split("\n")
                    if l.strip() and "SyntaxWarning" not in l and "file_names.sort" not in l and "^^^" not in l][-3:]
            problems.append("run A, which succeeds alone, fails when run B starts at the same time on the same "
                            "bgzipped reference:\n    " + "\n    ".join(tail))
        if run_b.returncode != 0:
            problems.append("run B failed as well:\n" + out_b[-1500:])
    finally:
        shutil.rmtree(SCRATCH, ignore_errors=True)
        if os.path.isdir("/tmp/hunt2scratch_C20") and not os.listdir("/tmp/hunt2scratch_C20"):
            os.rmdir("/tmp/hunt2scratch_C20")
    if problems:
        print("C20 VIOLATED")
        for p in problems:
            print(" - " + p)
        return 1
    print("not reproduced")
    return 0


if __name__ == "__main__":
    sys.exit(main())
