#!/usr/bin/env python3
"""
C20, finding 3 (borderline, see the note): the cache records the time stamp of the SOURCE file after the conversion
instead of before it.

src/gtf2db.py:370-380 convert_db(): the annotation is converted first (seconds to many minutes) and only then
  'gtf_mtime': os.path.getmtime(gtf_filename)
is taken.  When the annotation file is replaced by a new version while run Y converts it (a pipeline step that
refreshes annot.gtf, an editor, rsync), the database holds the OLD content but is recorded with the NEW time stamp:
every later run Z with the new annotation (its own inputs are stable) finds "its" conversion in the cache and silently
works with the old annotation.  The same pattern: src/read_mapper.py:129-135 store_index() (reference/index),
:165-169 (database/BED), :216-222 (reads/index/annotation of an alignment).

The unchanged isoquant.py is run; the annotation is replaced (atomic rename) 0.15 s after run Y has announced the
conversion.  Run Z is compared with the same run under a fresh HOME.

exit 1: property violated, exit 0: not violated.
"""
import os
import random
import shutil
import subprocess
import sys
import time

import pysam

HERE = os.path.dirname(os.path.abspath(__file__))
ISOQUANT = os.path.join(HERE, "isoquant.py")
PYTHON = "/venv/bin/python" if os.path.exists("/venv/bin/python") else sys.executable
ROOT = "/tmp/hunt3scratch_C20/d3"
NGENES = 400


def gene_exons(g, version):
    base = 1000 + g * 3000
    iso = {"G%d.T1" % g: [(base, base + 299), (base + 800, base + 999), (base + 1700, base + 1999)],
           "G%d.T2" % g: [(base, base + 299), (base + 1700, base + 1999)]}
    if version == 2:
        # the new version of the annotation knows a third isoform of every gene
        iso["G%d.T3" % g] = [(base, base + 299), (base + 1200, base + 1399), (base + 1700, base + 1999)]
    return base, iso


def write_gtf(path, version):
    with open(path, "w") as f:
        for g in range(NGENES):
            base, iso = gene_exons(g, version)
            f.write('chr1\tsrc\tgene\t%d\t%d\t.\t+\t.\tgene_id "G%d";\n' % (base, base + 1999, g))
            for tid, exons in iso.items():
                f.write('chr1\tsrc\ttranscript\t%d\t%d\t.\t+\t.\tgene_id "G%d"; transcript_id "%s";\n' %
                        (base, base + 1999, g, tid))
                for s, e in exons:
                    f.write('chr1\tsrc\texon\t%d\t%d\t.\t+\t.\tgene_id "G%d"; transcript_id "%s";\n' % (s, e, g, tid))


def make_inputs(d):
    os.makedirs(d)
    rnd = random.Random(11)
    L = 1000 + NGENES * 3000 + 1000
    seq = "".join(rnd.choices("ACGT", k=L))
    fa = os.path.join(d, "genome.fa")
    with open(fa, "w") as f:
        f.write(">chr1\n" + "\n".join(seq[i:i + 60] for i in range(0, L, 60)) + "\n")
    bam = os.path.join(d, "reads.bam")
    with pysam.AlignmentFile(bam, "wb", header={"HD": {"VN": "1.6", "SO": "coordinate"},
                                                  "SQ": [{"SN": "chr1", "LN": L}]}) as out:
        for g in range(0, NGENES, 10):
            _, iso = gene_exons(g, 2)
            for tid, exons in iso.items():
                for r in range(3):
                    a = pysam.AlignedSegment()
                    a.query_name = "read_%s_%d" % (tid, r)
                    a.reference_id, a.reference_start, a.mapping_quality, a.flag = 0, exons[0][0] - 1, 60, 0
                    cigar, s = [], ""
                    for i, (es, ee) in enumerate(exons):
                        if i:
                            cigar.append((3, es - exons[i - 1][1] - 1))
                        cigar.append((0, ee - es + 1))
                        s += seq[es - 1:ee]
                    a.cigar = cigar
                    a.query_sequence = s
                    a.query_qualities = pysam.qualitystring_to_array("I" * len(s))
                    out.write(a)
    pysam.index(bam)
    return fa, bam


def known_transcripts(outdir):
    ids = set()
    with open(os.path.join(outdir, "OUT", "OUT.transcript_counts.tsv")) as f:
        for line in f:
            if not line.startswith("#") and not line.startswith("__"):
                ids.add(line.split("\t")[0])
    return ids


def main():
    shutil.rmtree(ROOT, ignore_errors=True)
    d = os.path.join(ROOT, "in")
    fa, bam = make_inputs(d)
    gtf = os.path.join(d, "annot.gtf")
    write_gtf(gtf, 1)
    new_version = os.path.join(d, "annot.gtf.new")
    write_gtf(new_version, 2)
    home = os.path.join(ROOT, "home")
    os.makedirs(home)

    def cmd(out):
        return [PYTHON, ISOQUANT, "--reference", fa, "--genedb", gtf, "--complete_genedb", "--bam", bam,
                "--data_type", "nanopore", "-o", os.path.join(ROOT, out), "--threads", "1", "--no_gzip"]

    # run Y converts version 1; the annotation is replaced by version 2 while the conversion is under way
    y = subprocess.Popen(cmd("outY"), env=dict(os.environ, HOME=home), stdout=subprocess.PIPE,
                         stderr=subprocess.STDOUT, text=True)
    replaced_at = None
    for line in y.stdout:
        if "Converting gene annotation file to .db format" in line:
            # gffutils now creates the tables (~0.05 s), reads the annotation (~0.5 s for this one) and builds the
            # indices; IsoQuant takes the time stamp of the annotation after all that
            time.sleep(0.15)
            os.replace(new_version, gtf)
            replaced_at = time.time()
        elif "Gene database written" in line and replaced_at is not None:
            print("annotation replaced %.2f s before the end of the conversion" % (time.time() - replaced_at))
    y.wait()
    print("run Y (annotation replaced during its conversion) finished with exit code %d" % y.returncode)

    # run Z: the annotation (version 2) does not change any more
    z = subprocess.run(cmd("outZ"), env=dict(os.environ, HOME=home), capture_output=True, text=True)
    assert z.returncode == 0, z.stdout[-2000:]
    used = [line.split(" - ")[-1] for line in z.stdout.split("\n") if "Gene annotation file found" in line]
    # the same run alone (fresh HOME)
    home2 = os.path.join(ROOT, "home_alone")
    os.makedirs(home2)
    alone = subprocess.run(cmd("outZ_alone"), env=dict(os.environ, HOME=home2), capture_output=True, text=True)
    assert alone.returncode == 0, alone.stdout[-2000:]

    got = known_transcripts(os.path.join(ROOT, "outZ"))
    expected = known_transcripts(os.path.join(ROOT, "outZ_alone"))
    print("run Z, log: %s" % (used[0] if used else "annotation converted by the run itself"))
    print("run Z reports %d annotated transcripts, the same run under a fresh HOME %d" % (len(got), len(expected)))
    violated = got != expected
    if violated:
        print("   missing with the shared cache: %s ..." % ", ".join(sorted(expected - got)[:5]))
        print("VIOLATION of C20: run Z (stable inputs) is handed a database that was made from the previous content "
              "of its annotation file; the cache entry carries the time stamp of the new content")
    shutil.rmtree(ROOT, ignore_errors=True)
    return 1 if violated else 0


if __name__ == "__main__":
    sys.exit(main())
