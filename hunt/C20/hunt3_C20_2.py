#!/usr/bin/env python3
"""
C20, finding 2 (low probability, see the note): the cache of converted annotations hands a run the GTF of ANOTHER
database when the two database files happen to carry the same time stamp.

src/gtf2db.py:345-349 compare_stored_gtf() / :365-368 convert_db(): when a GTF is needed for a database
(convert_db_to_gtf(): every STARlong run with an annotation, src/read_mapper.py:265-267) ALL entries of
~/.config/IsoQuant/db_config.json are scanned and the first one is taken whose recorded 'db_mtime' equals the mtime of
the run's database - the recorded database PATH ('genedb') is never compared.  Two different databases with equal
mtime are enough: file systems / kernels with coarse time stamps (1 s on ext3, HFS+, many NFS/SMB exports; one timer
tick, 1-10 ms, on Linux < 6.13) give them to two of 2..16 simultaneously started runs whose conversions end in the same
tick; so do `touch -r`, `rsync -t`/archives with whole-second time stamps.  STAR is then guided by the splice
junctions of the wrong annotation (--sjdbGTFfile), while IsoQuant assigns the reads with the right one.

No aligner is installed, therefore the unchanged functions are called directly (find_annotation('starlong', args));
the cache is filled by an ordinary run of the unchanged isoquant.py; the equal time stamp is produced with os.utime
(what `touch -r` does).

exit 1: property violated, exit 0: not violated.
"""
import argparse
import os
import random
import shutil
import subprocess
import sys

import pysam

HERE = os.path.dirname(os.path.abspath(__file__))
ISOQUANT = os.path.join(HERE, "isoquant.py")
PYTHON = "/venv/bin/python" if os.path.exists("/venv/bin/python") else sys.executable
ROOT = "/tmp/hunt3scratch_C20/d2"
sys.path.insert(0, HERE)


def write_gtf(path, middle_exon):
    exons = {"G1.T1": [(1000, 1299), middle_exon, (2700, 2999)], "G1.T2": [(1000, 1299), (2700, 2999)]}
    with open(path, "w") as f:
        f.write('chr1\tsrc\tgene\t1000\t2999\t.\t+\t.\tgene_id "G1";\n')
        for tid, ex in exons.items():
            f.write('chr1\tsrc\ttranscript\t1000\t2999\t.\t+\t.\tgene_id "G1"; transcript_id "%s";\n' % tid)
            for s, e in ex:
                f.write('chr1\tsrc\texon\t%d\t%d\t.\t+\t.\tgene_id "G1"; transcript_id "%s";\n' % (s, e, tid))
    return exons


def make_inputs(d):
    os.makedirs(d)
    rnd = random.Random(3)
    L = 6000
    seq = "".join(rnd.choices("ACGT", k=L))
    fa = os.path.join(d, "genome.fa")
    with open(fa, "w") as f:
        f.write(">chr1\n" + "\n".join(seq[i:i + 60] for i in range(0, L, 60)) + "\n")
    exons_a = write_gtf(os.path.join(d, "annotA.gtf"), (1800, 1999))
    write_gtf(os.path.join(d, "annotB.gtf"), (1700, 1999))
    bam = os.path.join(d, "reads.bam")
    with pysam.AlignmentFile(bam, "wb", header={"HD": {"VN": "1.6", "SO": "coordinate"},
                                                  "SQ": [{"SN": "chr1", "LN": L}]}) as out:
        for tid, exons in exons_a.items():
            for r in range(3):
                a = pysam.AlignedSegment()
                a.query_name = "read_%s_%d" % (tid, r)
                a.reference_id, a.reference_start, a.mapping_quality, a.flag = 0, exons[0][0] - 1, 60, 0
                cigar, s = [], ""
                for i, (es, ee) in enumerate(exons):
                    if i:
                        cigar.append((3, es - exons[i - 1][1] - 1))
                    cigar.append((0, ee - es + 1))
                    s += seq[es - 1:ee]
                a.cigar = cigar
                a.query_sequence = s
                a.query_qualities = pysam.qualitystring_to_array("I" * len(s))
                out.write(a)
    pysam.index(bam)
    return fa, bam


def exon_set(gtf):
    res = set()
    for line in open(gtf):
        v = line.rstrip("\n").split("\t")
        if len(v) > 8 and v[2] == "exon":
            res.add((v[0], int(v[3]), int(v[4])))
    return res


def gtf_for_database(db, outdir, home):
    """what a STARlong run with --genedb <db> -o <outdir> passes to STAR as --sjdbGTFfile"""
    from src.read_mapper import find_annotation
    os.makedirs(outdir, exist_ok=True)
    args = argparse.Namespace(genedb=db, output=outdir, no_junc_bed=False, clean_start=False, complete_genedb=True,
                              db_config_path=os.path.join(home, ".config", "IsoQuant", "db_config.json"))
    return find_annotation("starlong", args)


def main():
    shutil.rmtree(ROOT, ignore_errors=True)
    d = os.path.join(ROOT, "in")
    fa, bam = make_inputs(d)
    home = os.path.join(ROOT, "home")
    os.makedirs(home)
    env = dict(os.environ, HOME=home)

    # an ordinary run with annotation A: converts annotA.gtf -> out1/annotA.db and records it in the cache
    r = subprocess.run([PYTHON, ISOQUANT, "--reference", fa, "--genedb", os.path.join(d, "annotA.gtf"),
                        "--complete_genedb", "--bam", bam, "--data_type", "nanopore", "-o", os.path.join(ROOT, "out1"),
                        "--threads", "1", "--no_gzip"], env=env, capture_output=True, text=True)
    assert r.returncode == 0, r.stdout[-2000:] + r.stderr[-2000:]
    db_a = os.path.join(ROOT, "out1", "annotA.db")

    # the database of annotation B, made with the converter that comes with IsoQuant
    os.makedirs(os.path.join(ROOT, "dbs"))
    db_b = os.path.join(ROOT, "dbs", "annotB.db")
    r = subprocess.run([PYTHON, os.path.join(HERE, "src", "gtf2db.py"), "--mode", "gtf2db", "-c",
                        "-i", os.path.join(d, "annotB.gtf"), "-o", db_b], env=env, capture_output=True, text=True)
    assert r.returncode == 0 and os.path.exists(db_b), r.stdout[-2000:] + r.stderr[-2000:]
    expected = exon_set(os.path.join(d, "annotB.gtf"))

    control = gtf_for_database(db_b, os.path.join(ROOT, "out2"), home)
    control_ok = exon_set(control) == expected
    print("different time stamps: run with %s gets %s - %s" %
          (db_b, control, "exons of annotation B" if control_ok else "NOT the exons of annotation B"))

    # the same second run in a fresh folder, but the two databases now carry the same time stamp
    st = os.stat(db_a)
    os.utime(db_b, ns=(st.st_atime_ns, st.st_mtime_ns))
    # (the entry made by the control belongs to the old time stamp of annotB.db and is not valid any more)
    got = gtf_for_database(db_b, os.path.join(ROOT, "out3"), home)
    ok = exon_set(got) == expected
    print("equal time stamps:     run with %s gets %s - %s" %
          (db_b, got, "exons of annotation B" if ok else "NOT the exons of annotation B"))
    if not ok:
        print("   exons only in the GTF handed out:   %s" % sorted(exon_set(got) - expected))
        print("   exons of annotation B missing there: %s" % sorted(expected - exon_set(got)))
        print("VIOLATION of C20: the cache makes the run use a conversion (GTF) that does not correspond to its own "
              "input (database): the recorded path of the database is never compared, only its time stamp")
    shutil.rmtree(ROOT, ignore_errors=True)
    return 0 if (ok and control_ok) else 1


if __name__ == "__main__":
    sys.exit(main())
