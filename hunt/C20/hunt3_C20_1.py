#!/usr/bin/env python3
"""
C20, finding 1: the temporary names of the reference indices are unique per PID only.

src/dataset_processor.py:104-117 (open_indexed_fasta) builds the .fai / .gzi of the shared reference under
  <reference>.fai.<os.getpid()>.tmp   and   <reference>.gzi.<os.getpid()>.tmp
next to the reference and renames them afterwards.  os.getpid() is unique among the processes of ONE pid namespace
only.  Two runs of the same user that are started in containers (docker run, unshare --pid, kubernetes pods,
nextflow/snakemake with docker) with the same HOME and the same reference folder mounted have, as a rule, the SAME
pid (1, or the same small number), so they build "their" temporary index in the same file: the run that finishes first
renames the file away, the other one dies with IndexNotFoundError / FileNotFoundError.
With a block-compressed reference the window is the whole second pass over the reference (the .gzi scan between
writing <ref>.fai.<pid>.tmp and the renames), i.e. many seconds for a real genome (8 simultaneously started runs with
a 20 Mb reference: 5 of 8 died); for the small reference used here the schedule is enforced from outside with
SIGSTOP/SIGCONT only (nothing is patched, the unchanged isoquant.py is run).

Schedule (identical for the control and for the test):
   A starts;   as soon as A has written <ref>.fai.<pidA>.tmp          -> A is frozen
   B starts;   as soon as B has written <ref>.fai.<pidB>.tmp          -> B is frozen
   A continues and finishes;  B continues and finishes.
control: A and B in the pid namespace of this script (different pids)      -> both must succeed
test:    A and B each in a pid namespace of its own (both have pid 1)      -> both must succeed, too

exit 1: property violated, exit 0: not violated (or pid namespaces cannot be created here).
"""
import os
import random
import shutil
import signal
import subprocess
import sys
import time

import pysam
from Bio import bgzf

HERE = os.path.dirname(os.path.abspath(__file__))
ISOQUANT = os.path.join(HERE, "isoquant.py")
PYTHON = "/venv/bin/python" if os.path.exists("/venv/bin/python") else sys.executable
ROOT = "/tmp/hunt3scratch_C20/d1"
L = 9000000


def make_inputs(d):
    os.makedirs(d)
    rnd = random.Random(7)
    seq = "".join(rnd.choices("ACGT", k=L))
    lines = [seq[i:i + 60] + "\n" for i in range(0, L, 60)]
    fa = os.path.join(d, "genome.fa.gz")
    with bgzf.BgzfWriter(fa, "wb") as out:
        out.write((">chr1\n" + "".join(lines)).encode())
    gtf = os.path.join(d, "annot.gtf")
    isoforms = {"G1.T1": [(1000, 1299), (1800, 1999), (2700, 2999)], "G1.T2": [(1000, 1299), (2700, 2999)]}
    with open(gtf, "w") as f:
        f.write('chr1\tsrc\tgene\t1000\t2999\t.\t+\t.\tgene_id "G1";\n')
        for tid, exons in isoforms.items():
            f.write('chr1\tsrc\ttranscript\t1000\t2999\t.\t+\t.\tgene_id "G1"; transcript_id "%s";\n' % tid)
            for s, e in exons:
                f.write('chr1\tsrc\texon\t%d\t%d\t.\t+\t.\tgene_id "G1"; transcript_id "%s";\n' % (s, e, tid))
    bam = os.path.join(d, "reads.bam")
    header = {"HD": {"VN": "1.6", "SO": "coordinate"}, "SQ": [{"SN": "chr1", "LN": L}]}
    with pysam.AlignmentFile(bam, "wb", header=header) as out:
        for tid, exons in isoforms.items():
            for r in range(4):
                a = pysam.AlignedSegment()
                a.query_name = "read_%s_%d" % (tid, r)
                a.reference_id = 0
                a.reference_start = exons[0][0] - 1
                cigar, s = [], ""
                for i, (es, ee) in enumerate(exons):
                    if i:
                        cigar.append((3, es - exons[i - 1][1] - 1))
                    cigar.append((0, ee - es + 1))
                    s += seq[es - 1:ee]
                a.cigar = cigar
                a.query_sequence = s
                a.query_qualities = pysam.qualitystring_to_array("I" * len(s))
                a.mapping_quality = 60
                a.flag = 0
                out.write(a)
    pysam.index(bam)
    return fa, gtf, bam


def tmp_state(fa):
    """temporary .fai files next to the reference (any name of the form <reference>.fai.*tmp*) with size and mtime"""
    state = {}
    prefix = os.path.basename(fa) + ".fai."
    with os.scandir(os.path.dirname(fa)) as it:
        for entry in it:
            if entry.name.startswith(prefix) and "tmp" in entry.name:
                try:
                    st = entry.stat()
                except OSError:
                    continue
                if st.st_size > 0:
                    state[entry.name] = (st.st_size, st.st_mtime_ns)
    return state


def start_and_freeze(cmd, env, fa, log):
    """starts a run and freezes it right after it has written its temporary .fai"""
    before = tmp_state(fa)
    p = subprocess.Popen(cmd, env=env, stdout=log, stderr=subprocess.STDOUT, start_new_session=True)
    deadline = time.time() + 60
    while time.time() < deadline:
        if tmp_state(fa) != before:
            os.killpg(p.pid, signal.SIGSTOP)
            return p, True
        if p.poll() is not None:
            return p, False
        time.sleep(0.0002)
    os.killpg(p.pid, signal.SIGSTOP)
    return p, False


def scenario(name, prefix):
    d = os.path.join(ROOT, name)
    if not os.path.exists(os.path.join(ROOT, "in")):
        make_inputs(os.path.join(ROOT, "in"))
    shutil.copytree(os.path.join(ROOT, "in"), os.path.join(d, "in"))
    fa, gtf, bam = [os.path.join(d, "in", f) for f in ("genome.fa.gz", "annot.gtf", "reads.bam")]
    home = os.path.join(d, "home")
    os.makedirs(home)
    env = dict(os.environ, HOME=home)

    def cmd(out):
        return prefix + [PYTHON, ISOQUANT, "--reference", fa, "--genedb", gtf, "--complete_genedb", "--bam", bam,
                         "--data_type", "nanopore", "-o", os.path.join(d, out), "--threads", "1", "--no_gzip"]

    log_a = open(os.path.join(d, "A.log"), "w")
    log_b = open(os.path.join(d, "B.log"), "w")
    a, a_frozen = start_and_freeze(cmd("outA"), env, fa, log_a)
    in_window = a_frozen and not os.path.exists(fa + ".fai")
    tmp_names = sorted(tmp_state(fa))
    b, b_frozen = start_and_freeze(cmd("outB"), env, fa, log_b)
    tmp_names_b = sorted(tmp_state(fa))
    os.killpg(a.pid, signal.SIGCONT)
    a.wait()
    os.killpg(b.pid, signal.SIGCONT)
    b.wait()
    log_a.close()
    log_b.close()
    print("[%s] temporary index files while A was frozen: %s, while B was frozen: %s" % (name, tmp_names, tmp_names_b))
    print("[%s] schedule reached: %s;  exit code of A: %d, of B: %d" %
          (name, in_window and b_frozen, a.returncode, b.returncode))
    for run, p in (("A", a), ("B", b)):
        if p.returncode != 0:
            tail = open(os.path.join(d, run + ".log")).read().strip().split("\n")
            print("[%s] last lines of run %s:\n    %s" % (name, run, "\n    ".join(tail[-4:])))
    counts = []
    for out in ("outA", "outB"):
        f = os.path.join(d, out, "OUT", "OUT.transcript_counts.tsv")
        counts.append(open(f).read() if os.path.exists(f) else None)
    return in_window and b_frozen, a.returncode, b.returncode, counts


def pid_namespace_prefix():
    for prefix in (["unshare", "--pid", "--fork"], ["unshare", "--user", "--map-root-user", "--pid", "--fork"]):
        try:
            r = subprocess.run(prefix + [PYTHON, "-c", "import os; print(os.getpid())"], capture_output=True, text=True)
        except OSError:
            continue
        if r.returncode == 0 and r.stdout.strip() == "1":
            return prefix
    return None


def main():
    shutil.rmtree(ROOT, ignore_errors=True)
    os.makedirs(ROOT)
    prefix = pid_namespace_prefix()
    if prefix is None:
        print("pid namespaces cannot be created here (unshare --pid fails): nothing demonstrated")
        return 0
    violated = False
    for attempt in range(3):
        shutil.rmtree(ROOT, ignore_errors=True)
        reached_c, ca, cb, counts_c = scenario("control_same_pid_namespace", [])
        reached_t, ta, tb, counts_t = scenario("test_pid_namespace_per_run", prefix)
        if not (reached_c and reached_t):
            print("the schedule was not reached (machine too busy?), trying again")
            continue
        if ca != 0 or cb != 0:
            print("the control itself failed: not the effect looked for")
            return 0
        if ta != 0 or tb != 0 or counts_t != counts_c:
            violated = True
            print("VIOLATION of C20: two runs of one user with the same HOME, separate output folders and the same "
                  "(block-compressed) reference, each started in a pid namespace of its own (as in containers), do not "
                  "both finish: both use %s.fai.1.tmp" % "genome.fa.gz")
        else:
            print("both runs finished with equal results: no violation")
        break
    shutil.rmtree(ROOT, ignore_errors=True)
    return 1 if violated else 0


if __name__ == "__main__":
    sys.exit(main())
