#!/venv/bin/python
"""
C20 hunt #2 (same root cause as #1, different annotations, SILENT wrong result):
the per-user annotation cache hands run B a converted annotation that lives in another run's output folder
(out0/annot.db).  A concurrent run A that legitimately writes into out0 (its own output folder, --force) with a
DIFFERENT annotation file of the same base name converts it to the very same path out0/annot.db.  B validated the
cache entry (mtimes) only once, at start-up, but (re)opens the database by path later (once in the main process and
again for every chromosome), so B is processed with A's annotation.

  R0 (earlier, finished):  isoquant.py --genedb v1/annot.gtf --complete_genedb -o out0 ...
  A  (concurrent):         isoquant.py --genedb v2/annot.gtf --complete_genedb -o out0 --force ...
  B  (concurrent):         isoquant.py --genedb v1/annot.gtf --complete_genedb -o outB ...

Forced interleaving (one pure DELAY in B between the return of convert_gtf_to_db and the rest of the pipeline,
placed by a wrapper; IsoQuant sources unchanged):  B consults the cache -> A runs -> B continues.
In real life the same happens without any artificial delay whenever A's conversion falls anywhere inside B's
(hours long) run, since B re-opens the file for every chromosome.

Expected: B == B alone (gene ids G* of v1).  Observed: B finishes with exit code 0 but reports the genes of v2 (H*).
exit 1 = violation demonstrated, exit 0 = not reproduced.
"""
import glob
import os
import random
import shutil
import subprocess
import sys
import time

import pysam

REPO = os.path.dirname(os.path.abspath(__file__))
SCRATCH = "/tmp/huntscratch_C20/h2"
PY = sys.executable


def build_inputs(d, ngenes=6, nchr=2, seed=1, tag="G", isoforms=2):
    os.makedirs(d, exist_ok=True)
    rnd = random.Random(seed)
    L = 12000
    chroms, gtf, reads = {}, [], []
    for ci in range(nchr):
        cname = "chr%d" % (ci + 1)
        seq = [rnd.choice("ACGT") for _ in range(L)]
        for gi in range(ngenes):
            base = 500 + gi * 1800
            exons = [(base, base + 199), (base + 500, base + 699), (base + 1000, base + 1299)]
            for (s1, e1), (s2, e2) in zip(exons[:-1], exons[1:]):
                seq[e1] = 'G'; seq[e1 + 1] = 'T'; seq[s2 - 3] = 'A'; seq[s2 - 2] = 'G'
            gid = "%s%d_%d" % (tag, ci + 1, gi)
            gtf.append((cname, exons[0][0], exons[-1][1], "gene", 'gene_id "%s";' % gid))
            for ti, ex in enumerate([exons, [exons[0], exons[2]]][:isoforms]):
                tid = "%s.t%d" % (gid, ti)
                gtf.append((cname, ex[0][0], ex[-1][1], "transcript", 'gene_id "%s"; transcript_id "%s";' % (gid, tid)))
                for k, (s, e) in enumerate(ex):
                    gtf.append((cname, s, e, "exon",
                                'gene_id "%s"; transcript_id "%s"; exon_number "%d";' % (gid, tid, k + 1)))
                for r in range(3):
                    reads.append((ci, cname, ex, "r_%s_%d" % (tid, r)))
        chroms[cname] = "".join(seq)
    with open(os.path.join(d, "genome.fa"), "w") as f:
        for c, s in chroms.items():
            f.write(">%s\n" % c)
            for i in range(0, len(s), 60):
                f.write(s[i:i + 60] + "\n")
    with open(os.path.join(d, "annot.gtf"), "w") as f:
        for c, s, e, t, a in gtf:
            f.write("\t".join([c, "src", t, str(s), str(e), ".", "+", ".", a]) + "\n")
    hdr = {"HD": {"VN": "1.6", "SO": "coordinate"}, "SQ": [{"SN": c, "LN": len(s)} for c, s in chroms.items()]}
    recs = []
    for ci, cname, ex, name in reads:
        a = pysam.AlignedSegment()
        a.query_name = name; a.reference_id = ci; a.reference_start = ex[0][0] - 1
        cig, seq = [], ""
        for k, (s, e) in enumerate(ex):
            if k:
                cig.append((3, s - ex[k - 1][1] - 1))
            cig.append((0, e - s + 1)); seq += chroms[cname][s - 1:e]
        cig.append((4, 20)); seq += "A" * 20
        a.cigar = cig; a.query_sequence = seq; a.flag = 0; a.mapping_quality = 60
        a.query_qualities = pysam.qualitystring_to_array("I" * len(seq))
        recs.append(a)
    recs.sort(key=lambda r: (r.reference_id, r.reference_start))
    bam = os.path.join(d, "reads.bam")
    with pysam.AlignmentFile(bam, "wb", header=hdr) as out:
        for r in recs:
            out.write(r)
    pysam.index(bam)
    pysam.faidx(os.path.join(d, "genome.fa"))


WRAPPER = r'''
import os, sys, time, runpy
REPO, role, sync = sys.argv[1], os.environ.get("C20_ROLE", ""), os.environ.get("C20_SYNC", "")
def wait(name):
    t = time.time()
    while not os.path.exists(os.path.join(sync, name)):
        if time.time() - t > 40:
            sys.stderr.write("SYNC TIMEOUT waiting for %s\n" % name); os._exit(99)
        time.sleep(0.02)
def flag(name):
    open(os.path.join(sync, name), "w").close()
sys.path.insert(0, REPO)
if role == "B":
    # run B: a pure delay between the cache look-up and the first use of the database
    import src.gtf2db as g
    orig_convert = g.convert_gtf_to_db
    def convert_gtf_to_db(args):
        r = orig_convert(args); flag("B_looked"); wait("A_finished"); return r
    g.convert_gtf_to_db = convert_gtf_to_db
sys.argv = [os.path.join(REPO, "isoquant.py")] + sys.argv[2:]
runpy.run_path(os.path.join(REPO, "isoquant.py"), run_name="__main__")
'''


def start(home, ind, out, role="", sync="", extra=(), gtf=None):
    env = dict(os.environ, HOME=home, C20_ROLE=role, C20_SYNC=sync)
    cmd = [PY, os.path.join(SCRATCH, "wrapper.py"), REPO,
           "--reference", ind + "/genome.fa", "--genedb", gtf or (ind + "/annot.gtf"), "--complete_genedb",
           "--bam", ind + "/reads.bam", "--data_type", "nanopore", "-o", out, "--threads", "1", "--no_gzip"]
    return subprocess.Popen(cmd + list(extra), env=env, stdout=subprocess.PIPE, stderr=subprocess.STDOUT)


def content(path):
    with open(path) as f:
        return [l for l in f if not l.startswith("# Command line")]


def main():
    shutil.rmtree(SCRATCH, ignore_errors=True)
    os.makedirs(SCRATCH)
    with open(os.path.join(SCRATCH, "wrapper.py"), "w") as f:
        f.write(WRAPPER)
    ind = os.path.join(SCRATCH, "in")       # genome, reads and annotation v1 (genes G*, two isoforms each)
    build_inputs(ind)
    v2 = os.path.join(SCRATCH, "v2")        # same genome; annotation v2: genes H*, one isoform each; same file name
    build_inputs(v2, tag="H", isoforms=1)
    gtf_v2 = os.path.join(v2, "annot.gtf")
    home, home_alone, sync = [os.path.join(SCRATCH, x) for x in ("home", "home_alone", "sync")]
    for d in (home, home_alone, sync):
        os.makedirs(d)
    out0, outB, outB_alone = [os.path.join(SCRATCH, x) for x in ("out0", "outB", "outB_alone")]

    p = start(home_alone, ind, outB_alone); log = p.communicate()[0].decode()     # what B produces alone
    assert p.returncode == 0, log
    p = start(home, ind, out0); log = p.communicate()[0].decode()                 # R0, leaves v1 -> out0/annot.db
    assert p.returncode == 0, log

    pb = start(home, ind, outB, "B", sync)
    pa = start(home, ind, out0, "", sync, ["--force"], gtf=gtf_v2)   # unmodified, undelayed run A
    log_a = pa.communicate()[0].decode()
    if not os.path.exists(os.path.join(sync, "B_looked")):
        # (B is quicker than a whole run A in practice; make sure anyway that B consulted the cache before A converted)
        print("schedule not reached: B was slower than the whole run A"); pb.kill(); return 0
    open(os.path.join(sync, "A_finished"), "w").close()
    log_b = pb.communicate()[0].decode()

    problems = []
    if pa.returncode != 0:
        problems.append("run A exit code %d\n%s" % (pa.returncode, log_a[-1500:]))
    used = [l for l in log_b.splitlines() if "Gene annotation file found" in l]
    print("B:", used[0].split(" - ")[-1] if used else "(no cache hit?)")
    if pb.returncode != 0:
        problems.append("run B exit code %d (alone: 0); tail of its log:\n%s" % (pb.returncode, log_b[-1500:]))
    else:
        for f in sorted(glob.glob(outB_alone + "/OUT/OUT.*")):
            g = os.path.join(outB, "OUT", os.path.basename(f))
            if not os.path.exists(g):
                problems.append("%s missing in concurrent run B" % os.path.basename(f))
            elif content(f) != content(g):
                a, b = content(f), content(g)
                problems.append("%s differs: alone %d lines, concurrent %d lines; e.g. alone %r vs concurrent %r" %
                                (os.path.basename(f), len(a), len(b),
                                 next((x for x in a if x not in b), "")[:90], next((x for x in b if x not in a), "")[:90]))
    if problems:
        print("C20 VIOLATED: run B (annotation v1, own output folder, exit code %s) was processed with the conversion of "
              "run A's annotation v2, because the cache pointed it to %s/annot.db:" % (pb.returncode, out0))
        for pr in problems:
            print(" -", pr)
        return 1
    print("no difference observed")
    return 0


if __name__ == "__main__":
    t0 = time.time()
    rc = main()
    shutil.rmtree(SCRATCH, ignore_errors=True)
    print("(%.1f s)" % (time.time() - t0))
    sys.exit(rc)
