#!/venv/bin/python
"""
C20 hunt #1: the per-user annotation cache (~/.config/IsoQuant/db_config.json) hands a run a converted
annotation that lives in ANOTHER run's output folder, and that file is re-created in place
(gffutils.create_db(..., force=True) unlinks it and fills it for the whole conversion time).

Runs involved (all valid command lines, separate output folders, same HOME, same annotation):
  R0 (earlier, finished):  isoquant.py ... --genedb annot.gtf --complete_genedb -o out0
  A  (concurrent):         isoquant.py ... --genedb annot.gtf --complete_genedb -o out0 --force --clean_start
  B  (concurrent):         isoquant.py ... --genedb annot.gtf --complete_genedb -o outB

Interleaving that is forced here (only by DELAYS placed in a wrapper around third-party gffutils / around the
return of convert_gtf_to_db; the IsoQuant sources are unchanged and nothing else is altered):
  B looks the annotation up in the cache -> "Gene annotation file found. Using out0/annot.db"
  A starts re-converting the annotation into out0/annot.db (conversion is in its feature loading phase)
  B goes on and reads out0/annot.db (it re-opens it by path for every chromosome, so the window is B's whole run)
  A finishes.

Expected (property C20): B produces what it produces alone.  Observed: B silently reports every read as
intergenic / produces empty counts (or dies with a sqlite error).
exit 1 = violation demonstrated, exit 0 = not reproduced.
"""
import glob
import os
import random
import shutil
import subprocess
import sys
import time

import pysam

REPO = os.path.dirname(os.path.abspath(__file__))
SCRATCH = "/tmp/huntscratch_C20/h1"
PY = sys.executable


def build_inputs(d, ngenes=6, nchr=2, seed=1):
    os.makedirs(d, exist_ok=True)
    rnd = random.Random(seed)
    L = 12000
    chroms, gtf, reads = {}, [], []
    for ci in range(nchr):
        cname = "chr%d" % (ci + 1)
        seq = [rnd.choice("ACGT") for _ in range(L)]
        for gi in range(ngenes):
            base = 500 + gi * 1800
            exons = [(base, base + 199), (base + 500, base + 699), (base + 1000, base + 1299)]
            for (s1, e1), (s2, e2) in zip(exons[:-1], exons[1:]):
                seq[e1] = 'G'; seq[e1 + 1] = 'T'; seq[s2 - 3] = 'A'; seq[s2 - 2] = 'G'
            gid = "G%d_%d" % (ci + 1, gi)
            gtf.append((cname, exons[0][0], exons[-1][1], "gene", 'gene_id "%s";' % gid))
            for ti, ex in enumerate([exons, [exons[0], exons[2]]]):
                tid = "%s.t%d" % (gid, ti)
                gtf.append((cname, ex[0][0], ex[-1][1], "transcript", 'gene_id "%s"; transcript_id "%s";' % (gid, tid)))
                for k, (s, e) in enumerate(ex):
                    gtf.append((cname, s, e, "exon",
                                'gene_id "%s"; transcript_id "%s"; exon_number "%d";' % (gid, tid, k + 1)))
                for r in range(3):
                    reads.append((ci, cname, ex, "r_%s_%d" % (tid, r)))
        chroms[cname] = "".join(seq)
    with open(os.path.join(d, "genome.fa"), "w") as f:
        for c, s in chroms.items():
            f.write(">%s\n" % c)
            for i in range(0, len(s), 60):
                f.write(s[i:i + 60] + "\n")
    with open(os.path.join(d, "annot.gtf"), "w") as f:
        for c, s, e, t, a in gtf:
            f.write("\t".join([c, "src", t, str(s), str(e), ".", "+", ".", a]) + "\n")
    hdr = {"HD": {"VN": "1.6", "SO": "coordinate"}, "SQ": [{"SN": c, "LN": len(s)} for c, s in chroms.items()]}
    recs = []
    for ci, cname, ex, name in reads:
        a = pysam.AlignedSegment()
        a.query_name = name; a.reference_id = ci; a.reference_start = ex[0][0] - 1
        cig, seq = [], ""
        for k, (s, e) in enumerate(ex):
            if k:
                cig.append((3, s - ex[k - 1][1] - 1))
            cig.append((0, e - s + 1)); seq += chroms[cname][s - 1:e]
        cig.append((4, 20)); seq += "A" * 20
        a.cigar = cig; a.query_sequence = seq; a.flag = 0; a.mapping_quality = 60
        a.query_qualities = pysam.qualitystring_to_array("I" * len(seq))
        recs.append(a)
    recs.sort(key=lambda r: (r.reference_id, r.reference_start))
    bam = os.path.join(d, "reads.bam")
    with pysam.AlignmentFile(bam, "wb", header=hdr) as out:
        for r in recs:
            out.write(r)
    pysam.index(bam)
    pysam.faidx(os.path.join(d, "genome.fa"))


WRAPPER = r'''
import os, sys, time, runpy
REPO, role, sync = sys.argv[1], os.environ.get("C20_ROLE", ""), os.environ.get("C20_SYNC", "")
def wait(name):
    t = time.time()
    while not os.path.exists(os.path.join(sync, name)):
        if time.time() - t > 40:
            sys.stderr.write("SYNC TIMEOUT waiting for %s\n" % name); os._exit(99)
        time.sleep(0.02)
def flag(name):
    open(os.path.join(sync, name), "w").close()
sys.path.insert(0, REPO)
if role == "A":
    # run A: pure delays inside third-party gffutils; the conversion itself is untouched
    import gffutils, gffutils.create as gc
    orig_create_db = gffutils.create_db
    def create_db(*a, **kw):
        wait("B_looked")                       # A starts converting after B consulted the cache
        return orig_create_db(*a, **kw)
    gffutils.create_db = create_db
    orig_populate = gc._GTFDBCreator._populate_from_lines
    def populate(self, lines):
        flag("A_mid"); wait("B_done")          # A is busy loading features while B runs
        return orig_populate(self, lines)
    gc._GTFDBCreator._populate_from_lines = populate
elif role == "B":
    # run B: a pure delay between the cache look-up and the first use of the database
    import src.gtf2db as g
    orig_convert = g.convert_gtf_to_db
    def convert_gtf_to_db(args):
        r = orig_convert(args); flag("B_looked"); wait("A_mid"); return r
    g.convert_gtf_to_db = convert_gtf_to_db
sys.argv = [os.path.join(REPO, "isoquant.py")] + sys.argv[2:]
runpy.run_path(os.path.join(REPO, "isoquant.py"), run_name="__main__")
'''


def start(home, ind, out, role="", sync="", extra=()):
    env = dict(os.environ, HOME=home, C20_ROLE=role, C20_SYNC=sync)
    cmd = [PY, os.path.join(SCRATCH, "wrapper.py"), REPO,
           "--reference", ind + "/genome.fa", "--genedb", ind + "/annot.gtf", "--complete_genedb",
           "--bam", ind + "/reads.bam", "--data_type", "nanopore", "-o", out, "--threads", "1", "--no_gzip"]
    return subprocess.Popen(cmd + list(extra), env=env, stdout=subprocess.PIPE, stderr=subprocess.STDOUT)


def content(path):
    with open(path) as f:
        return [l for l in f if not l.startswith("# Command line")]


def main():
    shutil.rmtree(SCRATCH, ignore_errors=True)
    os.makedirs(SCRATCH)
    with open(os.path.join(SCRATCH, "wrapper.py"), "w") as f:
        f.write(WRAPPER)
    ind = os.path.join(SCRATCH, "in")
    build_inputs(ind)
    home, home_alone, sync = [os.path.join(SCRATCH, x) for x in ("home", "home_alone", "sync")]
    for d in (home, home_alone, sync):
        os.makedirs(d)
    out0, outB, outB_alone = [os.path.join(SCRATCH, x) for x in ("out0", "outB", "outB_alone")]

    # what B produces alone
    p = start(home_alone, ind, outB_alone); log = p.communicate()[0].decode()
    assert p.returncode == 0, log
    # R0: an earlier, finished run; leaves annot.gtf -> out0/annot.db in the per-user cache
    p = start(home, ind, out0); log = p.communicate()[0].decode()
    assert p.returncode == 0, log

    # A and B start together
    pa = start(home, ind, out0, "A", sync, ["--force", "--clean_start"])
    pb = start(home, ind, outB, "B", sync)
    log_b = pb.communicate()[0].decode()
    open(os.path.join(sync, "B_done"), "w").close()
    log_a = pa.communicate()[0].decode()

    problems = []
    if pa.returncode != 0:
        problems.append("run A exit code %d\n%s" % (pa.returncode, log_a[-1500:]))
    used = [l for l in log_b.splitlines() if "Gene annotation file found" in l]
    print("B:", used[0].split(" - ")[-1] if used else "(no cache hit?)")
    if pb.returncode != 0:
        problems.append("run B exit code %d (alone: 0); tail of its log:\n%s" % (pb.returncode, log_b[-1500:]))
    else:
        for f in sorted(glob.glob(outB_alone + "/OUT/OUT.*")):
            g = os.path.join(outB, "OUT", os.path.basename(f))
            if not os.path.exists(g):
                problems.append("%s missing in concurrent run B" % os.path.basename(f))
            elif content(f) != content(g):
                a, b = content(f), content(g)
                problems.append("%s differs: alone %d lines, concurrent %d lines; e.g. alone %r vs concurrent %r" %
                                (os.path.basename(f), len(a), len(b),
                                 next((x for x in a if x not in b), "")[:120], next((x for x in b if x not in a), "")[:120]))
    if problems:
        print("C20 VIOLATED: run B (own output folder, same HOME) used %s/annot.db handed out by the per-user cache "
              "while run A was re-creating that file in place:" % out0)
        for pr in problems:
            print(" -", pr)
        return 1
    print("no difference observed")
    return 0


if __name__ == "__main__":
    t0 = time.time()
    rc = main()
    shutil.rmtree(SCRATCH, ignore_errors=True)
    print("(%.1f s)" % (time.time() - t0))
    sys.exit(rc)
