#!/venv/bin/python
"""
C20, second pass, finding 1, silent variant (same root cause as hunt2_C20_1.py): a bgzip-compressed reference that
has its .fai but no .gzi next to it (what pyfaidx < 0.8 / an older installation left behind).  pyfaidx then rebuilds
the .fai *in place* under its final name (open(..., 'w') at the start of the scan of the whole reference) before it
writes the .gzi; src/dataset_processor.py:open_indexed_fasta() does not take this case into account.

Interleaving (both runs are the unchanged isoquant.py; only two naturally long phases inside pyfaidx are stretched):
  run A: .gzi missing -> rebuilds .fai in place, is now scanning the reference for the .gzi (build_gzi)
  run B starts: .gzi still missing -> truncates .fai to rebuild it, is now scanning the reference (build_index)
  run A: writes .gzi, reads the .fai -> it is empty -> run A "knows" no chromosome, processes nothing,
         and finishes with exit code 0 and empty tables.
Alone, run A reports the reads (checked first).

exit 1 = property violated, exit 0 = not reproduced.
"""
import os
import random
import shutil
import subprocess
import sys
import time

import pysam

REPO = os.path.dirname(os.path.abspath(__file__))
SCRATCH = "/tmp/hunt2scratch_C20/demo2"
PY = "/venv/bin/python"


def make_inputs(d):
    rnd = random.Random(7)
    seqs = {}
    with open(os.path.join(d, "genome.fa"), "w") as f:
        for name in ("chr1", "chr2"):
            s = [rnd.choice("ACGT") for _ in range(5000)]
            for (a, b) in [(1200, 1500), (1700, 2000)]:
                s[a:a + 2] = "GT"
                s[b - 2:b] = "AG"
            seqs[name] = "".join(s)
            f.write(">%s\n" % name)
            for i in range(0, 5000, 60):
                f.write(seqs[name][i:i + 60] + "\n")
    pysam.tabix_compress(os.path.join(d, "genome.fa"), os.path.join(d, "genome.fa.gz"), force=True)   # BGZF
    os.remove(os.path.join(d, "genome.fa"))
    with open(os.path.join(d, "annot.gtf"), "w") as f:
        for chrom in seqs:
            g, t = "G_" + chrom, "T_" + chrom
            f.write("\t".join([chrom, "x", "gene", "1001", "2300", ".", "+", ".", 'gene_id "%s";' % g]) + "\n")
            f.write("\t".join([chrom, "x", "transcript", "1001", "2300", ".", "+", ".",
                               'gene_id "%s"; transcript_id "%s";' % (g, t)]) + "\n")
            for (s, e) in [(1001, 1200), (1501, 1700), (2001, 2300)]:
                f.write("\t".join([chrom, "x", "exon", str(s), str(e), ".", "+", ".",
                                   'gene_id "%s"; transcript_id "%s";' % (g, t)]) + "\n")
    header = {"HD": {"VN": "1.0", "SO": "coordinate"}, "SQ": [{"SN": k, "LN": len(v)} for k, v in seqs.items()]}
    with pysam.AlignmentFile(os.path.join(d, "reads.bam"), "wb", header=header) as out:
        for ci, chrom in enumerate(seqs):
            for k in range(5):
                a = pysam.AlignedSegment()
                a.query_name = "read_%s_%d" % (chrom, k)
                a.query_sequence = seqs[chrom][1000:1200] + seqs[chrom][1500:1700] + seqs[chrom][2000:2300]
                a.flag = 0
                a.reference_id = ci
                a.reference_start = 1000
                a.mapping_quality = 60
                a.cigar = [(0, 200), (3, 300), (0, 200), (3, 300), (0, 300)]
                a.query_qualities = pysam.qualitystring_to_array("I" * 700)
                out.write(a)
    pysam.index(os.path.join(d, "reads.bam"))


def isoquant_args(d, out):
    return [os.path.join(REPO, "isoquant.py"), "--reference", os.path.join(d, "genome.fa.gz"),
            "--genedb", os.path.join(d, "annot.gtf"), "--complete_genedb", "--bam", os.path.join(d, "reads.bam"),
            "--data_type", "nanopore", "-o", out, "--threads", "1", "--no_gzip"]


# unchanged IsoQuant code; only the timing inside pyfaidx is stretched at two places that are long anyway for a real
# genome: the scan for the .gzi (role A) and the scan that follows opening the .fai for writing (role B)
DELAYED_RUNNER = r"""
import os, sys, time, runpy
import pyfaidx
role, d = sys.argv[1], sys.argv[2]
def wait_for(name):
    deadline = time.time() + 40
    while not os.path.exists(os.path.join(d, name)) and time.time() < deadline:
        time.sleep(0.05)
def signal(name):
    open(os.path.join(d, name), "w").close()
if role == "A":
    orig_build_gzi = pyfaidx.Faidx.build_gzi
    def build_gzi(self):
        if not os.path.exists(os.path.join(d, "A_scans_for_gzi")):
            signal("A_scans_for_gzi")
            wait_for("B_rewrites_fai")
        orig_build_gzi(self)
    pyfaidx.Faidx.build_gzi = build_gzi
else:
    orig_open_fai = pyfaidx.Faidx._open_fai
    def _open_fai(self, mode):
        f = orig_open_fai(self, mode)
        if mode == 'w' and self.indexname.endswith(".fai") and not os.path.exists(os.path.join(d, "B_rewrites_fai")):
            signal("B_rewrites_fai")
            wait_for("A_finished")
        return f
    pyfaidx.Faidx._open_fai = _open_fai
sys.argv = sys.argv[3:]
sys.path.insert(0, os.path.dirname(os.path.abspath(sys.argv[0])))
runpy.run_path(sys.argv[0], run_name="__main__")
"""


def table(path):
    return [l for l in open(path).read().split("\n") if l and not l.startswith("#") and not l.startswith("__")]


def main():
    shutil.rmtree(SCRATCH, ignore_errors=True)
    os.makedirs(SCRATCH)
    problems = []
    try:
        from pyfaidx import Fasta
        # 1. what run A does alone (own copy of the inputs, own HOME)
        solo = os.path.join(SCRATCH, "solo")
        os.makedirs(os.path.join(solo, "home"))
        make_inputs(solo)
        Fasta(os.path.join(solo, "genome.fa.gz"))
        os.remove(os.path.join(solo, "genome.fa.gz.gzi"))         # .fai only
        r = subprocess.run([PY] + isoquant_args(solo, os.path.join(solo, "out")),
                           env=dict(os.environ, HOME=os.path.join(solo, "home")), capture_output=True, text=True)
        if r.returncode != 0:
            print("unexpected: the run fails even alone\n" + r.stdout[-2000:] + r.stderr[-2000:])
            return 0
        expected = table(os.path.join(solo, "out", "OUT", "OUT.transcript_counts.tsv"))
        print("alone: exit code 0, transcript counts: %s" % expected)

        # 2. two runs at the same time, one HOME, separate output folders
        conc = os.path.join(SCRATCH, "conc")
        home = os.path.join(conc, "home")
        os.makedirs(home)
        make_inputs(conc)
        Fasta(os.path.join(conc, "genome.fa.gz"))
        os.remove(os.path.join(conc, "genome.fa.gz.gzi"))         # .fai only
        env = dict(os.environ, HOME=home)
        runner = os.path.join(conc, "delayed_runner.py")
        with open(runner, "w") as f:
            f.write(DELAYED_RUNNER)
        run_a = subprocess.Popen([PY, runner, "A", conc] + isoquant_args(conc, os.path.join(conc, "outA")),
                                 env=env, stdout=subprocess.PIPE, stderr=subprocess.STDOUT, text=True)
        deadline = time.time() + 40
        while not os.path.exists(os.path.join(conc, "A_scans_for_gzi")) and time.time() < deadline \
                and run_a.poll() is None:
            time.sleep(0.05)
        run_b = subprocess.Popen([PY, runner, "B", conc] + isoquant_args(conc, os.path.join(conc, "outB")),
                                 env=env, stdout=subprocess.PIPE, stderr=subprocess.STDOUT, text=True)
        out_a = run_a.communicate()[0]
        open(os.path.join(conc, "A_finished"), "w").close()
        out_b = run_b.communicate()[0]
        if not os.path.exists(os.path.join(conc, "B_rewrites_fai")):
            print("could not set up the interleaving\n" + out_a[-1000:] + out_b[-1000:])
            return 0
        print("run A exit code %d, run B exit code %d" % (run_a.returncode, run_b.returncode))
        counts_a = os.path.join(conc, "outA", "OUT", "OUT.transcript_counts.tsv")
        got = table(counts_a) if os.path.exists(counts_a) else None
        print("run A transcript counts: %s" % got)
        if run_a.returncode != 0:
            problems.append("run A, which succeeds alone, fails:\n" + out_a[-1500:])
        elif got != expected:
            problems.append("run A finishes with exit code 0 but its transcript counts are %s instead of %s: it read "
                            "the reference index while run B was rewriting it in place" % (got, expected))
        got_b = table(os.path.join(conc, "outB", "OUT", "OUT.transcript_counts.tsv")) if run_b.returncode == 0 else None
        if got_b != expected:
            problems.append("run B: exit code %d, transcript counts %s" % (run_b.returncode, got_b))
    finally:
        shutil.rmtree(SCRATCH, ignore_errors=True)
        if os.path.isdir("/tmp/hunt2scratch_C20") and not os.listdir("/tmp/hunt2scratch_C20"):
            os.rmdir("/tmp/hunt2scratch_C20")
    if problems:
        print("C20 VIOLATED")
        for p in problems:
            print(" - " + p)
        return 1
    print("not reproduced")
    return 0


if __name__ == "__main__":
    sys.exit(main())
