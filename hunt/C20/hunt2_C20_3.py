#!/venv/bin/python
"""
C20, second pass, findings 2 and 3: the per-user cache of alignments (~/.config/IsoQuant/alignment_config.json) and of
aligner indices (index_config.json) hands a run a conversion that was made for another run's options.

  part 1  src/read_mapper.py find_stored_alignment()/store_alignment(): the key is (reads file, index, junction BED);
          --stranded is not part of it although align_fasta() adds "-uf" to the minimap2 command for
          "--stranded forward".  A run with --stranded forward silently takes over the BAM another run of the same user
          made without -uf (and vice versa) and never calls the aligner.
  part 2  find_stored_index()/store_index(): the entry is keyed by the reference only and checked for k-mer size, not
          for the aligner.  After a run with "--aligner starlong" the default (minimap2) run on the same reference is
          handed STAR's genome *directory* as its minimap2 index.

minimap2 and STARlong are not installed on this machine, so two small stand-ins with the same command line contract
are put on PATH (they log their command lines); IsoQuant itself is unchanged and is run through its command line.
What is checked is only what IsoQuant decides: which BAM / which index it uses and which aligner commands it issues.

exit 1 = property violated, exit 0 = not reproduced.
"""
import json
import os
import random
import shutil
import subprocess
import sys

import pysam

REPO = os.path.dirname(os.path.abspath(__file__))
SCRATCH = "/tmp/hunt2scratch_C20/demo3"
PY = "/venv/bin/python"

MINIMAP2_STUB = r'''#!/venv/bin/python
import sys, os, json
a = sys.argv[1:]
with open(os.environ["STUB_ALIGNER_LOG"], "a") as f:
    f.write(json.dumps(["minimap2"] + a) + "\n")
if a == ["--version"]:
    print("2.28-stub"); sys.exit(0)
if "-d" in a:                                   # minimap2 -t N -k K -w 5 -d index reference
    with open(a[a.index("-d") + 1], "w") as f:
        f.write("MMI-STUB\n%s\n" % os.path.abspath(a[-1]))
    sys.exit(0)
idx, fq = a[0], a[1]                            # minimap2 index reads -a -x preset ... [-uf] [--junc-bed bed]
if not os.path.isfile(idx) or open(idx).readline().strip() != "MMI-STUB":
    sys.stderr.write("[ERROR] failed to open file '%s'\n" % idx); sys.exit(1)
ref = open(idx).read().split("\n")[1]
seqs = {}
for l in open(ref):
    if l.startswith(">"):
        cur = l[1:].split()[0]; seqs[cur] = 0
    else:
        seqs[cur] += len(l.strip())
sys.stdout.write("@HD\tVN:1.6\tSO:unsorted\n")
for k, v in seqs.items():
    sys.stdout.write("@SQ\tSN:%s\tLN:%d\n" % (k, v))
lines = open(fq).read().split("\n")
for i in range(0, len(lines) - 3, 4):           # the stub marks in a tag whether -uf was given
    s = lines[i + 1]
    sys.stdout.write("\t".join([lines[i][1:].split()[0], "0", list(seqs)[0], "1001", "60", "%dM" % len(s), "*", "0",
                                "0", s, "I" * len(s), "uf:i:%d" % (1 if "-uf" in a else 0)]) + "\n")
'''

STAR_STUB = r'''#!/venv/bin/python
import sys, os, json
a = sys.argv[1:]
with open(os.environ["STUB_ALIGNER_LOG"], "a") as f:
    f.write(json.dumps(["STARlong"] + a) + "\n")
gd = a[a.index("--genomeDir") + 1]
if "genomeGenerate" in a:                       # STARlong --runMode genomeGenerate --genomeDir dir --genomeFastaFiles ref
    with open(os.path.join(gd, "genomeParameters.txt"), "w") as f:
        f.write("stub\n")
    sys.exit(0)
sys.exit(1)
'''


def make_inputs(d):
    rnd = random.Random(11)
    with open(os.path.join(d, "genome.fa"), "w") as f:
        seq = "".join(rnd.choice("ACGT") for _ in range(4000))
        f.write(">chr1\n")
        for i in range(0, 4000, 60):
            f.write(seq[i:i + 60] + "\n")
    with open(os.path.join(d, "annot.gtf"), "w") as f:
        f.write("\t".join(["chr1", "x", "gene", "1001", "1400", ".", "+", ".", 'gene_id "G1";']) + "\n")
        f.write("\t".join(["chr1", "x", "transcript", "1001", "1400", ".", "+", ".",
                           'gene_id "G1"; transcript_id "T1";']) + "\n")
        f.write("\t".join(["chr1", "x", "exon", "1001", "1400", ".", "+", ".",
                           'gene_id "G1"; transcript_id "T1";']) + "\n")
    with open(os.path.join(d, "reads.fq"), "w") as f:
        for i in range(4):
            f.write("@read%d\n%s\n+\n%s\n" % (i, seq[1000:1300], "I" * 300))
    bindir = os.path.join(d, "bin")
    os.makedirs(bindir)
    for name, text in (("minimap2", MINIMAP2_STUB), ("STARlong", STAR_STUB)):
        with open(os.path.join(bindir, name), "w") as f:
            f.write(text)
        os.chmod(os.path.join(bindir, name), 0o755)


def run(d, home, out, extra):
    env = dict(os.environ, HOME=os.path.join(d, home), STUB_ALIGNER_LOG=os.path.join(d, home + ".aligner.log"),
               PATH=os.path.join(d, "bin") + os.pathsep + os.environ["PATH"])
    os.makedirs(env["HOME"], exist_ok=True)
    cmd = [PY, os.path.join(REPO, "isoquant.py"), "--reference", os.path.join(d, "genome.fa"),
           "--genedb", os.path.join(d, "annot.gtf"), "--complete_genedb", "--fastq", os.path.join(d, "reads.fq"),
           "--data_type", "nanopore", "-o", os.path.join(d, out), "--threads", "1", "--no_gzip"] + extra
    r = subprocess.run(cmd, env=env, capture_output=True, text=True)
    return r.returncode, r.stdout + r.stderr


def aligner_calls(d, home):
    path = os.path.join(d, home + ".aligner.log")
    return [json.loads(l) for l in open(path)] if os.path.exists(path) else []


def mapping_calls(calls, out):
    # the read mapping commands (not --version, not indexing) issued by the run that writes into folder `out`
    return [c for c in calls if c[0] == "minimap2" and "-a" in c and ("/%s/" % out) in " ".join(c)]


def used_bam(log):
    for l in log.split("\n"):
        if "Experiment has 1 BAM file:" in l:
            return l.split("Experiment has 1 BAM file:")[1].strip()
    return None


def uf_tags(bam):
    return sorted(set(a.get_tag("uf") for a in pysam.AlignmentFile(bam, "rb")))


def main():
    shutil.rmtree(SCRATCH, ignore_errors=True)
    os.makedirs(SCRATCH)
    problems = []
    try:
        # ---------------- part 1: --stranded is not part of the alignment cache key
        d = os.path.join(SCRATCH, "p1")
        os.makedirs(d)
        make_inputs(d)
        rc, log = run(d, "home_solo", "solo_fwd", ["--stranded", "forward"])
        solo_bam = used_bam(log)
        solo_map = mapping_calls(aligner_calls(d, "home_solo"), "solo_fwd")
        print("alone, --stranded forward: exit %d, minimap2 mapping calls with -uf: %d, alignment tags uf=%s" %
              (rc, sum("-uf" in c for c in solo_map), uf_tags(solo_bam) if solo_bam else None))
        rc_a, log_a = run(d, "home", "outA", [])
        rc_b, log_b = run(d, "home", "outB", ["--stranded", "forward"])
        bam_b = used_bam(log_b)
        map_b = mapping_calls(aligner_calls(d, "home"), "outB")
        print("same HOME: run A (unstranded) exit %d; run B (--stranded forward) exit %d, mapping calls of run B: %d, "
              "run B works on %s with tags uf=%s" % (rc_a, rc_b, len(map_b), bam_b, uf_tags(bam_b) if bam_b else None))
        if rc == 0 and rc_a == 0 and solo_map and all("-uf" in c for c in solo_map):
            if rc_b != 0:
                problems.append("part 1: run B failed\n" + log_b[-1500:])
            elif not any("-uf" in c for c in map_b) and bam_b and os.path.join(d, "outA") in bam_b:
                problems.append("part 1: run B (--stranded forward) never aligned its reads with -uf as it does alone; "
                                "the alignment cache gave it run A's unstranded alignment %s" % bam_b)

        # ---------------- part 2: the aligner is not part of the index cache entry
        d = os.path.join(SCRATCH, "p2")
        os.makedirs(d)
        make_inputs(d)
        rc, log = run(d, "home_solo", "solo", [])
        print("alone, default aligner: exit %d" % rc)
        # (the STAR run itself stops later in align_fasta() for an unrelated reason; by then it has stored its index)
        rc_a, log_a = run(d, "home", "outA", ["--aligner", "starlong"])
        rc_b, log_b = run(d, "home", "outB", [])
        map_b = mapping_calls(aligner_calls(d, "home"), "outB") + \
            [c for c in aligner_calls(d, "home") if c[0] == "minimap2" and "-a" in c and "/outA/" in c[1]]
        idx_b = map_b[0][1] if map_b else None
        print("same HOME: run A (--aligner starlong) exit %d; run B (minimap2) exit %d, index passed to minimap2 by "
              "run B: %s (%s)" % (rc_a, rc_b, idx_b, "directory" if idx_b and os.path.isdir(idx_b) else "file"))
        if rc == 0 and idx_b and os.path.isdir(idx_b) and \
                os.path.exists(os.path.join(idx_b, "genomeParameters.txt")):
            problems.append("part 2: run B (minimap2), which succeeds alone, was handed the STAR genome directory %s "
                            "of run A as its minimap2 index (exit code of run B: %d)" % (idx_b, rc_b))
    finally:
        shutil.rmtree(SCRATCH, ignore_errors=True)
        if os.path.isdir("/tmp/hunt2scratch_C20") and not os.listdir("/tmp/hunt2scratch_C20"):
            os.rmdir("/tmp/hunt2scratch_C20")
    if problems:
        print("C20 VIOLATED")
        for p in problems:
            print(" - " + p)
        return 1
    print("not reproduced")
    return 0


if __name__ == "__main__":
    sys.exit(main())
