#!/venv/bin/python
"""
C20 hunt #3 (secondary, needs a crash point): a half-written aligner index is published in the per-user cache
(~/.config/IsoQuant/index_config.json) and handed to runs working in other output folders.

  A0: isoquant.py --fastq reads.fq --reference genome.fa -d nanopore -o out0     killed while minimap2 -d is running
      -> out0/genome_k14_idx exists but is empty/truncated (minimap2 opens the -d file before it starts indexing);
         nothing is in the cache yet, which is fine.
  A1: isoquant.py ... -o out0 --force        (re-run, NOT --resume)  } started together, same HOME,
  B : isoquant.py ... -o outB                                         } separate output folders

  read_mapper.index_reference() of A1 sees os.path.isfile(out0/genome_k14_idx) and "reuses" it without any check,
  and DataSetReadMapper.create_index() then store_index()es it, i.e. the truncated file becomes THE cached index of
  genome.fa.  B (which alone would simply have built its own index in outB) now gets out0/genome_k14_idx from
  find_stored_index().

The repository functions are called directly (minimap2 is not needed: the faulty path never calls it).
exit 1 = violation demonstrated, exit 0 otherwise.
"""
import os
import shutil
import sys
import types

REPO = os.path.dirname(os.path.abspath(__file__))
SCRATCH = "/tmp/huntscratch_C20/h3"
shutil.rmtree(SCRATCH, ignore_errors=True)
os.makedirs(SCRATCH)
os.environ["HOME"] = os.path.join(SCRATCH, "home")
os.makedirs(os.environ["HOME"])
os.environ["PATH"] = os.path.join(SCRATCH, "nobin")      # make sure no aligner can be called at all
sys.path.insert(0, REPO)
import isoquant                                           # noqa: E402
from src.read_mapper import DataSetReadMapper, find_stored_index   # noqa: E402


def make_args(out):
    a = types.SimpleNamespace(reference=os.path.join(SCRATCH, "genome.fa"), output=os.path.join(SCRATCH, out),
                              data_type="nanopore", aligner=None, index=None, clean_start=False, threads=1)
    os.makedirs(a.output, exist_ok=True)
    isoquant.set_configs_directory(a)
    return a


with open(os.path.join(SCRATCH, "genome.fa"), "w") as f:
    f.write(">chr1\n" + "ACGT" * 500 + "\n")

# state left behind by the killed run A0: the index file was opened for writing, indexing never finished
args_a = make_args("out0")
truncated = os.path.join(args_a.output, "genome_k14_idx")
open(truncated, "wb").close()

rc = 0
try:
    idx_a = DataSetReadMapper(args_a).index_fname          # run A1 (re-run in out0, no --resume, no --clean_start)
except SystemExit:
    idx_a = None                                           # would mean: tried to call minimap2 = rebuilt the index
print("A1 uses index:", idx_a, "size", os.path.getsize(idx_a) if idx_a else None)
args_b = make_args("outB")                                 # run B, separate output folder, same HOME
idx_b = find_stored_index(args_b)
print("B is handed :", idx_b)
if idx_b is not None and os.path.abspath(idx_b) == os.path.abspath(truncated):
    print("C20 VIOLATED: the truncated (0 byte) index left by a killed run was published in index_config.json and is "
          "handed to a run with a different output folder, which alone would have built its own index")
    rc = 1
shutil.rmtree(SCRATCH, ignore_errors=True)
sys.exit(rc)
