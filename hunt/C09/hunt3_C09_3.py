#!/venv/bin/python
# C09, third search, finding 3 (lower confidence: needs a table with an empty field in front of the read id):
# --read_group file:FILE:1:2 with a tab-separated table whose column 0 is empty in some rows.
# load_table() strips the whole line (line.strip()) before splitting it, which removes the leading tab of such rows:
# all fields move one column to the left, the row has "too few columns", a "Malformed input" warning is printed and
# the read is counted under NA although the table assigns a group to it.
# Responsible code: src/read_groups.py load_table (line = line.strip()).
import os
import random
import shutil
import subprocess
import sys

import pysam

HERE = os.path.dirname(os.path.abspath(__file__))
ISOQUANT = os.path.join(HERE, "isoquant.py")
PY = "/venv/bin/python" if os.path.exists("/venv/bin/python") else sys.executable
WD = "/tmp/hunt3scratch_C09/f3"

T1 = [(1000, 1300), (2000, 2300), (3000, 3400)]
T2 = [(1000, 1300), (3000, 3400)]
T3 = [(500, 900), (1500, 1900)]
CONTIGS = [("chr1", 6000), ("chr2", 4000)]


def build():
    shutil.rmtree(WD, ignore_errors=True)
    os.makedirs(os.path.join(WD, "home"))
    rnd = random.Random(1)
    seqs = {}
    with open(os.path.join(WD, "genome.fa"), "w") as f:
        for name, length in CONTIGS:
            seqs[name] = "".join(rnd.choice("ACGT") for _ in range(length))
            f.write(">%s\n" % name)
            for i in range(0, length, 60):
                f.write(seqs[name][i:i + 60] + "\n")
    with open(os.path.join(WD, "annot.gtf"), "w") as f:
        for chrom, gene, strand, trs in (("chr1", "G1", "+", {"T1": T1, "T2": T2}), ("chr2", "G2", "-", {"T3": T3})):
            gs = min(e[0] for ex in trs.values() for e in ex)
            ge = max(e[1] for ex in trs.values() for e in ex)
            f.write('%s\ttest\tgene\t%d\t%d\t.\t%s\t.\tgene_id "%s";\n' % (chrom, gs, ge, strand, gene))
            for tid, exons in trs.items():
                f.write('%s\ttest\ttranscript\t%d\t%d\t.\t%s\t.\tgene_id "%s"; transcript_id "%s";\n'
                        % (chrom, exons[0][0], exons[-1][1], strand, gene, tid))
                for s, e in exons:
                    f.write('%s\ttest\texon\t%d\t%d\t.\t%s\t.\tgene_id "%s"; transcript_id "%s";\n'
                            % (chrom, s, e, strand, gene, tid))
    header = pysam.AlignmentHeader.from_dict({"HD": {"VN": "1.6", "SO": "coordinate"},
                                              "SQ": [{"SN": n, "LN": l} for n, l in CONTIGS]})
    reads = []
    expected = {}
    k = 0
    for chrom, tid, exons, n in (("chr1", "T1", T1, 4), ("chr1", "T2", T2, 3), ("chr2", "T3", T3, 2)):
        for _ in range(n):
            a = pysam.AlignedSegment(header)
            a.query_name = "read%d" % k
            group = "AB"[k % 2]
            expected[(tid, group)] = expected.get((tid, group), 0) + 1
            k += 1
            a.reference_id = header.get_tid(chrom)
            a.reference_start = exons[0][0] - 1
            cigar, seq = [], ""
            for i, (s, e) in enumerate(exons):
                if i:
                    cigar.append((3, s - exons[i - 1][1] - 1))
                cigar.append((0, e - s + 1))
                seq += seqs[chrom][s - 1:e]
            a.cigartuples = cigar
            a.query_sequence = seq
            a.query_qualities = pysam.qualitystring_to_array("I" * len(seq))
            a.flag = 0
            a.mapping_quality = 60
            reads.append((a, group))
    reads.sort(key=lambda r: (r[0].reference_id, r[0].reference_start))
    bam = os.path.join(WD, "reads.bam")
    with pysam.AlignmentFile(bam, "wb", header=header) as out:
        for a, _ in reads:
            out.write(a)
    pysam.index(bam)
    # the table: column 0 = an optional annotation that is empty for every second read, column 1 = read id,
    # column 2 = group
    with open(os.path.join(WD, "table.tsv"), "w") as f:
        for i, (a, group) in enumerate(reads):
            f.write("%s\t%s\t%s\n" % ("" if i % 2 else "checked", a.query_name, group))
    return expected


def run(out, read_group):
    env = dict(os.environ, HOME=os.path.join(WD, "home"))
    cmd = [PY, ISOQUANT, "--reference", os.path.join(WD, "genome.fa"), "--genedb", os.path.join(WD, "annot.gtf"),
           "--complete_genedb", "--bam", os.path.join(WD, "reads.bam"), "--data_type", "nanopore",
           "-o", os.path.join(WD, out), "--threads", "1", "--no_gzip", "--read_group", read_group]
    p = subprocess.run(cmd, env=env, stdout=subprocess.PIPE, stderr=subprocess.STDOUT, text=True)
    if p.returncode != 0:
        print(p.stdout[-3000:])
        print("IsoQuant failed with exit code %d" % p.returncode)
        sys.exit(1)
    res = {}
    with open(os.path.join(WD, out, "OUT", "OUT.transcript_grouped_counts_linear.tsv")) as f:
        f.readline()
        for l in f:
            fs = l.rstrip("\n").split("\t")
            if float(fs[2]) != 0:
                res[(fs[0], fs[1])] = float(fs[2])
    return res


def main():
    expected = build()
    table = os.path.join(WD, "table.tsv")
    observed = run("out", "file:%s:1:2" % table)
    print("documented groups (read ids in column 1, groups in column 2):", sorted(expected.items()))
    print("--read_group file:FILE:1:2 ->", sorted(observed.items()))
    if observed != expected:
        print("VIOLATION: rows whose first field is empty are shifted by one column (the line is strip()ped before it "
              "is split), declared malformed and their reads are counted under NA although the table has an entry")
        return 1
    print("ok")
    return 0


if __name__ == "__main__":
    rc = main()
    shutil.rmtree(WD, ignore_errors=True)
    sys.exit(rc)
