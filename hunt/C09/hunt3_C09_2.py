#!/venv/bin/python
# C09, third search, finding 2:
# the grouped TPM tables (*_grouped_tpm.tsv) name the wrong group as soon as a group name contains the
# substring "count": convert_counts_to_tpm copies the header of the grouped count matrix with
# line.replace("count", "TPM"), which was meant for the "count" column title of the ungrouped table.
# Files count_A.bam and discount.bam (or --labels count_A discount, RG/CB values, table entries ...) give the
# groups "count_A" and "discount" in the count tables, but "TPM_A" and "disTPM" in the TPM tables.
# Responsible code: src/long_read_counter.py AssignedFeatureCounter.convert_counts_to_tpm
#                   (outf.write(line.replace("count", "TPM"))).
import os
import random
import shutil
import subprocess
import sys

import pysam

HERE = os.path.dirname(os.path.abspath(__file__))
ISOQUANT = os.path.join(HERE, "isoquant.py")
PY = "/venv/bin/python" if os.path.exists("/venv/bin/python") else sys.executable
WD = "/tmp/hunt3scratch_C09/f2"

T1 = [(1000, 1300), (2000, 2300), (3000, 3400)]
T2 = [(1000, 1300), (3000, 3400)]
T3 = [(500, 900), (1500, 1900)]
CONTIGS = [("chr1", 6000), ("chr2", 4000)]




def build():
    shutil.rmtree(WD, ignore_errors=True)
    os.makedirs(os.path.join(WD, "home"))
    rnd = random.Random(1)
    seqs = {}
    with open(os.path.join(WD, "genome.fa"), "w") as f:
        for name, length in CONTIGS:
            seqs[name] = "".join(rnd.choice("ACGT") for _ in range(length))
            f.write(">%s\n" % name)
            for i in range(0, length, 60):
                f.write(seqs[name][i:i + 60] + "\n")
    with open(os.path.join(WD, "annot.gtf"), "w") as f:
        for chrom, gene, strand, trs in (("chr1", "G1", "+", {"T1": T1, "T2": T2}), ("chr2", "G2", "-", {"T3": T3})):
            gs = min(e[0] for ex in trs.values() for e in ex)
            ge = max(e[1] for ex in trs.values() for e in ex)
            f.write('%s\ttest\tgene\t%d\t%d\t.\t%s\t.\tgene_id "%s";\n' % (chrom, gs, ge, strand, gene))
            for tid, exons in trs.items():
                f.write('%s\ttest\ttranscript\t%d\t%d\t.\t%s\t.\tgene_id "%s"; transcript_id "%s";\n'
                        % (chrom, exons[0][0], exons[-1][1], strand, gene, tid))
                for s, e in exons:
                    f.write('%s\ttest\texon\t%d\t%d\t.\t%s\t.\tgene_id "%s"; transcript_id "%s";\n'
                            % (chrom, s, e, strand, gene, tid))
    header = pysam.AlignmentHeader.from_dict({"HD": {"VN": "1.6", "SO": "coordinate"},
                                              "SQ": [{"SN": n, "LN": l} for n, l in CONTIGS]})
    for file_name, prefix, numbers in (("count_A.bam", "a", (4, 3, 2)), ("discount.bam", "b", (2, 5, 1))):
        reads = []
        k = 0
        for (chrom, exons), n in zip((("chr1", T1), ("chr1", T2), ("chr2", T3)), numbers):
            for _ in range(n):
                a = pysam.AlignedSegment(header)
                a.query_name = "%s_read%d" % (prefix, k)
                k += 1
                a.reference_id = header.get_tid(chrom)
                a.reference_start = exons[0][0] - 1
                cigar, seq = [], ""
                for i, (s, e) in enumerate(exons):
                    if i:
                        cigar.append((3, s - exons[i - 1][1] - 1))
                    cigar.append((0, e - s + 1))
                    seq += seqs[chrom][s - 1:e]
                a.cigartuples = cigar
                a.query_sequence = seq
                a.query_qualities = pysam.qualitystring_to_array("I" * len(seq))
                a.flag = 0
                a.mapping_quality = 60
                reads.append(a)
        reads.sort(key=lambda r: (r.reference_id, r.reference_start))
        bam = os.path.join(WD, file_name)
        with pysam.AlignmentFile(bam, "wb", header=header) as out:
            for a in reads:
                out.write(a)
        pysam.index(bam)


def header_groups(path):
    with open(path) as f:
        return f.readline().rstrip("\n").split("\t")[1:]


def main():
    build()
    env = dict(os.environ, HOME=os.path.join(WD, "home"))
    cmd = [PY, ISOQUANT, "--reference", os.path.join(WD, "genome.fa"), "--genedb", os.path.join(WD, "annot.gtf"),
           "--complete_genedb", "--bam", os.path.join(WD, "count_A.bam"), os.path.join(WD, "discount.bam"),
           "--data_type", "nanopore", "-o", os.path.join(WD, "out"), "--threads", "1", "--no_gzip",
           "--read_group", "file_name"]
    p = subprocess.run(cmd, env=env, stdout=subprocess.PIPE, stderr=subprocess.STDOUT, text=True)
    if p.returncode != 0:
        print(p.stdout[-3000:])
        print("IsoQuant failed with exit code %d" % p.returncode)
        return 1
    bad = 0
    for kind in ("gene", "transcript", "transcript_model"):
        counts = header_groups(os.path.join(WD, "out", "OUT", "OUT.%s_grouped_counts.tsv" % kind))
        tpm = header_groups(os.path.join(WD, "out", "OUT", "OUT.%s_grouped_tpm.tsv" % kind))
        print("%-16s groups of the count matrix: %s   groups of the TPM matrix: %s" % (kind, counts, tpm))
        if counts != ["count_A", "discount"]:
            print("unexpected groups in the count matrix")
            bad += 1
        if tpm != counts:
            bad += 1
    if bad:
        print("VIOLATION: the grouped TPM tables report the values of the files count_A.bam / discount.bam under "
              "groups that do not exist (TPM_A, disTPM)")
        return 1
    print("ok")
    return 0


if __name__ == "__main__":
    rc = main()
    shutil.rmtree(WD, ignore_errors=True)
    sys.exit(rc)
