#!/venv/bin/python
# ---- helpers: build tiny synthetic inputs, run the unchanged IsoQuant ----
import os, random, shutil, subprocess, collections
import pysam

ISOQUANT_DIR = os.path.dirname(os.path.abspath(__file__))
ISO = os.path.join(ISOQUANT_DIR, "isoquant.py")
PY = "/venv/bin/python"
SCRATCH = "/tmp/hunt2scratch_C09"

CHROMS = {"chr1": 12000, "chr2": 9000, "chr3": 5000}
GENES = [
    dict(chr="chr1", strand="+", gid="geneA", transcripts={"A1": [(1001, 1200), (1501, 1700), (2001, 2300)],
                                                          "A2": [(1001, 1200), (2001, 2300)]}),
    dict(chr="chr1", strand="-", gid="geneB", transcripts={"B1": [(5001, 5300), (5601, 5800), (6201, 6500)]}),
    dict(chr="chr2", strand="+", gid="geneC", transcripts={"C1": [(1001, 1300), (1701, 1900), (2401, 2700)]}),
    dict(chr="chr3", strand="+", gid="geneD", transcripts={"D1": [(1001, 1800)]}),
]
TR = {t: (g, ex) for g in GENES for t, ex in g["transcripts"].items()}


def workdir(name):
    d = os.path.join(SCRATCH, name)
    shutil.rmtree(d, ignore_errors=True)
    os.makedirs(os.path.join(d, "home"))
    return d


def make_reference(d, seed=1):
    rnd = random.Random(seed)
    seqs = {c: [rnd.choice("ACGT") for _ in range(l)] for c, l in CHROMS.items()}
    for g in GENES:
        for exons in g["transcripts"].values():
            for (a, b), (c, e) in zip(exons[:-1], exons[1:]):
                left, right = ("GT", "AG") if g["strand"] == "+" else ("CT", "AC")
                seqs[g["chr"]][b:b + 2] = left
                seqs[g["chr"]][c - 3:c - 1] = right
    seqs = {c: "".join(s) for c, s in seqs.items()}
    fa = os.path.join(d, "genome.fa")
    with open(fa, "w") as f:
        for c, s in seqs.items():
            f.write(">%s\n" % c)
            for i in range(0, len(s), 60):
                f.write(s[i:i + 60] + "\n")
    gtf = os.path.join(d, "annot.gtf")
    with open(gtf, "w") as f:
        for g in GENES:
            allex = [e for ex in g["transcripts"].values() for e in ex]
            f.write('%s\tsrc\tgene\t%d\t%d\t.\t%s\t.\tgene_id "%s";\n' %
                    (g["chr"], min(e[0] for e in allex), max(e[1] for e in allex), g["strand"], g["gid"]))
            for tid, exons in g["transcripts"].items():
                attr = 'gene_id "%s"; transcript_id "%s";' % (g["gid"], tid)
                f.write('%s\tsrc\ttranscript\t%d\t%d\t.\t%s\t.\t%s\n' % (g["chr"], exons[0][0], exons[-1][1], g["strand"], attr))
                for a, b in exons:
                    f.write('%s\tsrc\texon\t%d\t%d\t.\t%s\t.\t%s\n' % (g["chr"], a, b, g["strand"], attr))
    return fa, gtf, seqs


def fsm_read(tid, name, tags=()):
    # a full-length read of annotated transcript tid with a soft-clipped poly-A tail
    g, ex = TR[tid]
    return dict(name=name, chr=g["chr"], exons=list(ex), minus=g["strand"] == "-", tags=list(tags))


def make_bam(path, seqs, reads):
    header = {"HD": {"VN": "1.0", "SO": "coordinate"}, "SQ": [{"SN": c, "LN": l} for c, l in CHROMS.items()]}
    names = list(CHROMS)
    recs = []
    for r in reads:
        a = pysam.AlignedSegment()
        a.query_name = r["name"]
        cigar, seq = [], ""
        for i, (s, e) in enumerate(r["exons"]):
            if i:
                cigar.append((3, s - r["exons"][i - 1][1] - 1))
            cigar.append((0, e - s + 1))
            seq += seqs[r["chr"]][s - 1:e]
        if r["minus"]:
            cigar.insert(0, (4, 20)); seq = "T" * 20 + seq
        else:
            cigar.append((4, 20)); seq += "A" * 20
        a.query_sequence = seq
        a.flag = 16 if r["minus"] else 0
        a.reference_id = names.index(r["chr"])
        a.reference_start = r["exons"][0][0] - 1
        a.mapping_quality = 60
        a.cigartuples = cigar
        for t, v in r["tags"]:
            a.set_tag(t, v)
        recs.append(a)
    recs.sort(key=lambda x: (x.reference_id, x.reference_start))
    with pysam.AlignmentFile(path, "wb", header=header) as out:
        for a in recs:
            out.write(a)
    pysam.index(path)


def isoquant(d, args, script=ISO, extra_env=None):
    env = dict(os.environ, HOME=os.path.join(d, "home"), PYTHONHASHSEED="0")
    env.update(extra_env or {})
    cmd = [PY, script] + list(args)
    p = subprocess.run(cmd, env=env, stdout=subprocess.PIPE, stderr=subprocess.STDOUT, text=True)
    return p.returncode, p.stdout


def std_args(fa, gtf, out):
    return ["--reference", fa, "--genedb", gtf, "--complete_genedb", "--data_type", "nanopore",
            "-o", out, "--threads", "1", "--no_gzip"]


def last_error(log):
    lines = [l for l in log.strip().split("\n") if l.strip()]
    return lines[-1] if lines else ""


def read_matrix(path):
    groups, rows = None, {}
    for l in open(path):
        f = l.rstrip("\n").split("\t")
        if l.startswith("#"):
            groups = f[1:]
        else:
            rows[f[0]] = dict(zip(groups, map(float, f[1:])))
    return groups, rows


def read_linear(path):
    rows = collections.defaultdict(dict)
    for l in open(path):
        if l.startswith("#"):
            continue
        f = l.rstrip("\n").split("\t")
        rows[f[0]][f[1]] = float(f[2])
    return rows


# ---- the demonstration ----
def main():
    d = workdir("h5")
    fa, gtf, seqs = make_reference(d)
    per_file = {}
    bams = []
    for sub, n in (("rep1", 2), ("rep2", 3)):
        os.makedirs(os.path.join(d, sub))
        reads = []
        for tid in TR:
            for k in range(n):
                reads.append(fsm_read(tid, "%s_%s_%d" % (sub, tid, k)))
        bam = os.path.join(d, sub, "aligned.bam")
        make_bam(bam, seqs, reads)
        bams.append(bam)
        per_file[bam] = n
    out = os.path.join(d, "out")
    # no --read_group: IsoQuant switches to file_name grouping because there are two files
    rc, log = isoquant(d, std_args(fa, gtf, out) + ["--bam"] + bams)
    if rc != 0:
        print("unexpected: run failed\n" + log[-2000:])
        return 2
    groups, rows = read_matrix(os.path.join(out, "OUT", "OUT.transcript_grouped_counts.tsv"))
    if len(groups) != len(bams):
        print("VIOLATION (C09, depends on the reading of 'file name'): %d input files but %d group column(s) %s; "
              "reads of rep1/aligned.bam and rep2/aligned.bam are counted in the same column, e.g. A1: %s "
              "(2 reads come from rep1, 3 from rep2)" % (len(bams), len(groups), groups, rows["A1"]))
        return 1
    print("OK: one column per file: %s" % groups)
    return 0


if __name__ == "__main__":
    try:
        code = main()
    finally:
        shutil.rmtree(os.path.join(SCRATCH, "h5"), ignore_errors=True)
    raise SystemExit(code)
