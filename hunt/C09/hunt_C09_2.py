#!/venv/bin/python
"""C09 hunt, finding 2: with --read_group set, the per-chromosome grouped tables cannot be merged when the
output prefix (--prefix) also occurs in the fixed file-name suffix of a grouped table
("..._grouped_counts.tsv", "..._grouped_counts_linear.tsv"), e.g. --prefix linear or --prefix grouped.

file_utils.merge_file_list() derives the per-chromosome file names with rreplace(fname, label, label_chr), i.e. it
replaces the LAST occurrence of the prefix in the path.  For "linear.gene_grouped_counts_linear.tsv" the last
occurrence is inside the suffix, so the per-chromosome linear tables are never found: the merged linear tables
stay empty (while the matrix ones of transcript models are filled) and the run then aborts with FileNotFoundError.
The same command without --read_group finishes normally, so it is the grouped output that breaks.

exit 1 = property violated, exit 0 = fine.
"""
import os
import random
import shutil
import subprocess
import sys

import pysam

ISO = os.path.join(os.path.dirname(os.path.abspath(__file__)), "isoquant.py")
PY = "/venv/bin/python"
WORK = "/tmp/huntscratch_C09/hunt2"
PREFIX = "linear"

CHROMS = {"chr1": 10000, "chr2": 8000}
GENES = [
    ("chr1", "geneA", "+", {"tA1": [(1001, 1200), (2001, 2200), (3001, 3200)]}),
    ("chr1", "geneB", "+", {"tB1": [(6001, 6800)]}),
    ("chr2", "geneC", "-", {"tC1": [(1001, 1300), (2001, 2300)]}),
]


def build_inputs():
    rnd = random.Random(7)
    seqs = {c: [rnd.choice("ACGT") for _ in range(l)] for c, l in CHROMS.items()}
    for c, g, strand, ts in GENES:
        for t, exons in ts.items():
            for i in range(len(exons) - 1):
                s, e = exons[i][1], exons[i + 1][0] - 1
                if strand == "+":
                    seqs[c][s:s + 2] = "GT"
                    seqs[c][e - 2:e] = "AG"
                else:
                    seqs[c][s:s + 2] = "CT"
                    seqs[c][e - 2:e] = "AC"
    seqs = {c: "".join(s) for c, s in seqs.items()}
    with open(os.path.join(WORK, "genome.fa"), "w") as f:
        for c in CHROMS:
            f.write(">%s\n" % c)
            for i in range(0, len(seqs[c]), 60):
                f.write(seqs[c][i:i + 60] + "\n")
    with open(os.path.join(WORK, "annot.gtf"), "w") as f:
        for c, g, strand, ts in GENES:
            for t, exons in ts.items():
                f.write('%s\tsrc\tgene\t%d\t%d\t.\t%s\t.\tgene_id "%s";\n' % (c, exons[0][0], exons[-1][1], strand, g))
                f.write('%s\tsrc\ttranscript\t%d\t%d\t.\t%s\t.\tgene_id "%s"; transcript_id "%s";\n'
                        % (c, exons[0][0], exons[-1][1], strand, g, t))
                for s, e in exons:
                    f.write('%s\tsrc\texon\t%d\t%d\t.\t%s\t.\tgene_id "%s"; transcript_id "%s";\n'
                            % (c, s, e, strand, g, t))

    header = {"HD": {"VN": "1.0", "SO": "coordinate"}, "SQ": [{"SN": c, "LN": l} for c, l in CHROMS.items()]}
    records = []
    n = 0
    for c, g, strand, ts in GENES:
        for t, exons in ts.items():
            for _ in range(6):
                grp = ["G1", "G2", None][n % 3]
                cigar, seq = [], ""
                for i, (s, e) in enumerate(exons):
                    if i:
                        cigar.append((3, s - 1 - exons[i - 1][1]))
                    cigar.append((0, e - s + 1))
                    seq += seqs[c][s - 1:e]
                if strand == "+":
                    seq += "A" * 30
                    cigar.append((4, 30))
                else:
                    seq = "T" * 30 + seq
                    cigar.insert(0, (4, 30))
                records.append((list(CHROMS).index(c), exons[0][0] - 1, "read%d" % n, seq, cigar, strand == "-", grp))
                n += 1
    records.sort(key=lambda r: r[:3])
    bam = os.path.join(WORK, "reads.bam")
    with pysam.AlignmentFile(bam, "wb", header=header) as out:
        for ref, start, name, seq, cigar, rev, grp in records:
            a = pysam.AlignedSegment(out.header)
            a.query_name, a.query_sequence, a.flag = name, seq, (16 if rev else 0)
            a.reference_id, a.reference_start, a.mapping_quality, a.cigartuples = ref, start, 60, cigar
            a.query_qualities = pysam.qualitystring_to_array("I" * len(seq))
            if grp is not None:
                a.set_tag("XG", grp)
            out.write(a)
    pysam.index(bam)


def run(out, extra):
    cmd = [PY, ISO, "--reference", os.path.join(WORK, "genome.fa"), "--genedb", os.path.join(WORK, "annot.gtf"),
           "--complete_genedb", "--bam", os.path.join(WORK, "reads.bam"), "--data_type", "nanopore",
           "-o", out, "--threads", "1", "--no_gzip", "--prefix", PREFIX] + extra
    p = subprocess.run(cmd, env=dict(os.environ, HOME=os.path.join(WORK, "home")),
                       stdout=subprocess.PIPE, stderr=subprocess.STDOUT, text=True)
    return p.returncode, p.stdout


def read_ungrouped(path):
    res = {}
    for line in open(path):
        if not line.startswith("#") and not line.startswith("__"):
            fs = line.rstrip("\n").split("\t")
            res[fs[0]] = float(fs[1])
    return res


def read_linear(path):
    res = {}
    for line in open(path):
        if not line.startswith("#"):
            fs = line.rstrip("\n").split("\t")
            res[fs[0]] = res.get(fs[0], 0.0) + float(fs[2])
    return res


def main():
    shutil.rmtree(WORK, ignore_errors=True)
    os.makedirs(os.path.join(WORK, "home"))
    try:
        build_inputs()
        rc0, log0 = run(os.path.join(WORK, "out_ungrouped"), [])
        if rc0 != 0:
            print("unexpected: the control run without --read_group failed as well (not the grouped output is at fault)")
            print(log0[-1500:])
            return 0
        ungrouped = read_ungrouped(os.path.join(WORK, "out_ungrouped", PREFIX, PREFIX + ".transcript_counts.tsv"))
        print("control run (--prefix %s, no --read_group): exit code 0, transcript counts %s"
              % (PREFIX, sorted(ungrouped.items())))

        out = os.path.join(WORK, "out_grouped")
        rc, log = run(out, ["--read_group", "tag:XG"])
        bad = False
        if rc != 0:
            bad = True
            print("VIOLATION: the same command plus --read_group tag:XG aborted (exit code %d):" % rc)
            print("\n".join(log.strip().split("\n")[-3:]))
        for kind in ("gene", "transcript", "transcript_model"):
            matrix = os.path.join(out, PREFIX, "%s.%s_grouped_counts.tsv" % (PREFIX, kind))
            linear = os.path.join(out, PREFIX, "%s.%s_grouped_counts_linear.tsv" % (PREFIX, kind))
            ung = os.path.join(out, PREFIX, "%s.%s_counts.tsv" % (PREFIX, kind))
            sizes = [os.path.getsize(f) if os.path.exists(f) else None for f in (ung, matrix, linear)]
            print("  %-17s bytes: ungrouped=%s grouped matrix=%s grouped linear=%s" % ((kind,) + tuple(sizes)))
            if not all(sizes):
                bad = True
                continue
            u, l = read_ungrouped(ung), read_linear(linear)
            for feature in u:
                if abs(u[feature] - l.get(feature, 0.0)) > 0.02:
                    bad = True
                    print("VIOLATION: %s %s: ungrouped count %.2f, sum over groups in the linear table %.2f"
                          % (kind, feature, u[feature], l.get(feature, 0.0)))
        if bad:
            return 1
        print("OK: grouped tables were merged")
        return 0
    finally:
        shutil.rmtree(WORK, ignore_errors=True)


if __name__ == "__main__":
    sys.exit(main())
