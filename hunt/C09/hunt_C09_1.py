#!/venv/bin/python
"""C09 hunt, finding 1: --read_group tag:TAG aborts the run when TAG is an integer-typed BAM tag
(e.g. HP:i written by whatshap/longphase haplotagging, or any other `i`/`f`/`B` typed tag).

The value returned by pysam's get_tag() is used as the group id without conversion to a string;
ReadAssignment.serialize() -> write_string(self.read_group) then raises TypeError and the whole run dies.
No grouped (or ungrouped) table is produced.

exit 1 = property violated (run aborted or tables wrong), exit 0 = fine.
"""
import os
import random
import shutil
import subprocess
import sys

import pysam

ISO = os.path.join(os.path.dirname(os.path.abspath(__file__)), "isoquant.py")
PY = "/venv/bin/python"
WORK = "/tmp/huntscratch_C09/hunt1"

CHROMS = {"chr1": 10000, "chr2": 8000}
GENES = [
    ("chr1", "geneA", "+", {"tA1": [(1001, 1200), (2001, 2200), (3001, 3200)]}),
    ("chr1", "geneB", "+", {"tB1": [(6001, 6800)]}),
    ("chr2", "geneC", "-", {"tC1": [(1001, 1300), (2001, 2300)]}),
]


def build_inputs():
    rnd = random.Random(7)
    seqs = {c: [rnd.choice("ACGT") for _ in range(l)] for c, l in CHROMS.items()}
    for c, g, strand, ts in GENES:
        for t, exons in ts.items():
            for i in range(len(exons) - 1):
                s, e = exons[i][1], exons[i + 1][0] - 1
                if strand == "+":
                    seqs[c][s:s + 2] = "GT"
                    seqs[c][e - 2:e] = "AG"
                else:
                    seqs[c][s:s + 2] = "CT"
                    seqs[c][e - 2:e] = "AC"
    seqs = {c: "".join(s) for c, s in seqs.items()}
    with open(os.path.join(WORK, "genome.fa"), "w") as f:
        for c in CHROMS:
            f.write(">%s\n" % c)
            for i in range(0, len(seqs[c]), 60):
                f.write(seqs[c][i:i + 60] + "\n")
    with open(os.path.join(WORK, "annot.gtf"), "w") as f:
        for c, g, strand, ts in GENES:
            for t, exons in ts.items():
                f.write('%s\tsrc\tgene\t%d\t%d\t.\t%s\t.\tgene_id "%s";\n' % (c, exons[0][0], exons[-1][1], strand, g))
                f.write('%s\tsrc\ttranscript\t%d\t%d\t.\t%s\t.\tgene_id "%s"; transcript_id "%s";\n'
                        % (c, exons[0][0], exons[-1][1], strand, g, t))
                for s, e in exons:
                    f.write('%s\tsrc\texon\t%d\t%d\t.\t%s\t.\tgene_id "%s"; transcript_id "%s";\n'
                            % (c, s, e, strand, g, t))

    # reads: full-length copies of the annotated isoforms with a soft-clipped polyA tail;
    # haplotype tag HP:i:1 / HP:i:2 / no tag in rotation
    header = {"HD": {"VN": "1.0", "SO": "coordinate"}, "SQ": [{"SN": c, "LN": l} for c, l in CHROMS.items()]}
    expected = {}
    records = []
    n = 0
    for c, g, strand, ts in GENES:
        for t, exons in ts.items():
            for _ in range(6):
                hp = [1, 2, None][n % 3]
                cigar, seq = [], ""
                for i, (s, e) in enumerate(exons):
                    if i:
                        cigar.append((3, s - 1 - exons[i - 1][1]))
                    cigar.append((0, e - s + 1))
                    seq += seqs[c][s - 1:e]
                if strand == "+":
                    seq += "A" * 30
                    cigar.append((4, 30))
                else:
                    seq = "T" * 30 + seq
                    cigar.insert(0, (4, 30))
                records.append((list(CHROMS).index(c), exons[0][0] - 1, "read%d" % n, seq, cigar, strand == "-", hp))
                key = (t, "NA" if hp is None else str(hp))
                expected[key] = expected.get(key, 0) + 1
                n += 1
    records.sort()
    bam = os.path.join(WORK, "reads.bam")
    with pysam.AlignmentFile(bam, "wb", header=header) as out:
        for ref, start, name, seq, cigar, rev, hp in records:
            a = pysam.AlignedSegment(out.header)
            a.query_name, a.query_sequence, a.flag = name, seq, (16 if rev else 0)
            a.reference_id, a.reference_start, a.mapping_quality, a.cigartuples = ref, start, 60, cigar
            a.query_qualities = pysam.qualitystring_to_array("I" * len(seq))
            if hp is not None:
                a.set_tag("HP", hp, value_type="i")
            out.write(a)
    pysam.index(bam)
    return expected


def read_matrix(path):
    res, groups = {}, None
    for line in open(path):
        fs = line.rstrip("\n").split("\t")
        if line.startswith("#"):
            groups = fs[1:]
        elif not line.startswith("__"):
            for g, v in zip(groups, fs[1:]):
                res[(fs[0], g)] = float(v)
    return res


def main():
    shutil.rmtree(WORK, ignore_errors=True)
    os.makedirs(os.path.join(WORK, "home"))
    try:
        expected = build_inputs()
        out = os.path.join(WORK, "out")
        cmd = [PY, ISO, "--reference", os.path.join(WORK, "genome.fa"), "--genedb", os.path.join(WORK, "annot.gtf"),
               "--complete_genedb", "--bam", os.path.join(WORK, "reads.bam"), "--data_type", "nanopore",
               "-o", out, "--threads", "1", "--no_gzip", "--read_group", "tag:HP"]
        p = subprocess.run(cmd, env=dict(os.environ, HOME=os.path.join(WORK, "home")),
                           stdout=subprocess.PIPE, stderr=subprocess.STDOUT, text=True)
        if p.returncode != 0:
            print("VIOLATION: IsoQuant aborted (exit code %d) with --read_group tag:HP on a BAM whose reads carry "
                  "HP:i:1 / HP:i:2 / no HP tag; no count tables were produced." % p.returncode)
            print("Expected grouped transcript counts: %s" % sorted(expected.items()))
            print("--- tail of the IsoQuant log ---")
            print("\n".join(p.stdout.strip().split("\n")[-8:]))
            return 1
        got = read_matrix(os.path.join(out, "OUT", "OUT.transcript_grouped_counts.tsv"))
        got = {k: v for k, v in got.items() if v}
        if got != {k: float(v) for k, v in expected.items()}:
            print("VIOLATION: grouped transcript counts differ from the expected ones")
            print("expected", sorted(expected.items()))
            print("got     ", sorted(got.items()))
            return 1
        print("OK: integer tag values were used as groups")
        return 0
    finally:
        shutil.rmtree(WORK, ignore_errors=True)


if __name__ == "__main__":
    sys.exit(main())
