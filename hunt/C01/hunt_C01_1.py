#!/usr/bin/env python3
"""
C01 finding 1: an A-rich 3' end of the *genome* (T-rich for minus-strand genes) is mistaken for an aligned polyA
tail.  A read that follows an annotated isoform exactly (every base, full length) is then reported as
`inconsistent_non_intronic` (alternative_polya_site), i.e. NOT with a consistent assignment type.

Three scenarios, all with reads that are exact, full-length copies of the annotated isoform:
  A  (+ strand) last 60 bases of the last exon are ~87% A, read has no soft-clipped tail
  A' same read WITH a soft-clipped polyA tail -> assigned `unique` (shows that the read itself is fine)
  B  (+ strand) the whole 51-bp terminal exon is A-rich; read with a real polyA tail at the isoform's 3' end
  C  (- strand) first 60 bases of the first exon are T-rich, no tail
Exit code 1 = property violated, 0 = not violated.
"""
import os
import random
import shutil
import subprocess
import sys

import pysam

REPO = os.path.dirname(os.path.abspath(__file__))
WORK = "/tmp/huntscratch_C01/demo1"
CONSISTENT = {"unique", "unique_minor_difference", "ambiguous"}
PY = "/venv/bin/python" if os.path.exists("/venv/bin/python") else sys.executable


def main():
    shutil.rmtree(WORK, ignore_errors=True)
    os.makedirs(os.path.join(WORK, "home"))
    rnd = random.Random(7)
    L = 12000
    g = [rnd.choice("ACGT") for _ in range(L)]

    # gene_id, strand, transcript_id, exons (1-based, inclusive)
    annot = [("GA", "+", "TA", [(1000, 1200), (1500, 1800)]),
             ("GB", "+", "TB", [(4000, 4300), (4600, 4800), (5100, 5150)]),
             ("GC", "-", "TC", [(8000, 8300), (8600, 8800)])]

    def put(s, e, pat):
        for i in range(s, e + 1):
            g[i - 1] = pat[(i - s) % len(pat)]

    # canonical splice sites
    for gid, strand, tid, exons in annot:
        for i in range(len(exons) - 1):
            a, b = exons[i][1] + 1, exons[i + 1][0] - 1
            l, r = ("GT", "AG") if strand == "+" else ("CT", "AC")
            g[a - 1], g[a] = l[0], l[1]
            g[b - 2], g[b - 1] = r[0], r[1]
    put(1741, 1800, "AAAAAAACAAAAAAAG")  # last 60 bases of TA
    put(5100, 5150, "AAAAAAACAAAAAAAG")  # whole terminal exon of TB (51 bp)
    put(8000, 8059, "TTTTTTTCTTTTTTTG")  # first 60 bases of TC (3' end of a minus-strand isoform)

    fa = os.path.join(WORK, "genome.fa")
    with open(fa, "w") as f:
        f.write(">chr1\n")
        s = "".join(g)
        for i in range(0, L, 60):
            f.write(s[i:i + 60] + "\n")
    gtf = os.path.join(WORK, "annot.gtf")
    with open(gtf, "w") as f:
        for gid, strand, tid, exons in annot:
            f.write('chr1\tsrc\tgene\t%d\t%d\t.\t%s\t.\tgene_id "%s";\n' % (exons[0][0], exons[-1][1], strand, gid))
            f.write('chr1\tsrc\ttranscript\t%d\t%d\t.\t%s\t.\tgene_id "%s"; transcript_id "%s";\n' %
                    (exons[0][0], exons[-1][1], strand, gid, tid))
            for s_, e_ in exons:
                f.write('chr1\tsrc\texon\t%d\t%d\t.\t%s\t.\tgene_id "%s"; transcript_id "%s";\n' %
                        (s_, e_, strand, gid, tid))

    # reads: (name, exons, left soft clip, right soft clip, reverse)
    reads = [("A_exact_no_tail", annot[0][3], "", "", False),
             ("A_exact_with_tail", annot[0][3], "", "A" * 30, False),
             ("B_exact_with_tail", annot[1][3], "", "A" * 30, False),
             ("B_exact_no_tail", annot[1][3], "", "", False),
             ("C_exact_no_tail", annot[2][3], "", "", True)]
    expected_isoform = {"A_exact_no_tail": "TA", "A_exact_with_tail": "TA", "B_exact_with_tail": "TB",
                        "B_exact_no_tail": "TB", "C_exact_no_tail": "TC"}
    header = {"HD": {"VN": "1.0", "SO": "coordinate"}, "SQ": [{"SN": "chr1", "LN": L}]}
    bam = os.path.join(WORK, "reads.bam")
    recs = []
    for name, exons, lc, rc, rev in reads:
        cig, seq = [], ""
        if lc:
            cig.append((4, len(lc))); seq += lc
        for i, (s_, e_) in enumerate(exons):
            if i:
                cig.append((3, s_ - exons[i - 1][1] - 1))
            cig.append((0, e_ - s_ + 1))
            seq += "".join(g[s_ - 1:e_])
        if rc:
            cig.append((4, len(rc))); seq += rc
        recs.append((exons[0][0] - 1, name, cig, seq, rev))
    recs.sort()
    with pysam.AlignmentFile(bam, "wb", header=header) as out:
        for start, name, cig, seq, rev in recs:
            a = pysam.AlignedSegment(out.header)
            a.query_name = name
            a.reference_id = 0
            a.reference_start = start
            a.cigartuples = cig
            a.query_sequence = seq
            a.flag = 16 if rev else 0
            a.mapping_quality = 60
            a.query_qualities = pysam.qualitystring_to_array("I" * len(seq))
            out.write(a)
    pysam.index(bam)

    outdir = os.path.join(WORK, "out")
    cmd = [PY, os.path.join(REPO, "isoquant.py"), "--reference", fa, "--genedb", gtf, "--complete_genedb",
           "--bam", bam, "--data_type", "nanopore", "-o", outdir, "--threads", "1", "--no_gzip",
           "--no_model_construction"]
    p = subprocess.run(cmd, env=dict(os.environ, HOME=os.path.join(WORK, "home")), capture_output=True, text=True)
    if p.returncode != 0:
        print(p.stdout[-2000:], p.stderr[-2000:])
        print("IsoQuant failed")
        return 1

    res = {}
    for line in open(os.path.join(outdir, "OUT", "OUT.read_assignments.tsv")):
        if line.startswith("#"):
            continue
        t = line.rstrip("\n").split("\t")
        res.setdefault(t[0], []).append((t[3], t[5], t[6], t[7]))

    bad = 0
    for name, exons, lc, rc, rev in reads:
        rows = res.get(name, [])
        print("%-18s read exons %s clip=%s -> %s" % (name, exons, (lc or rc or "-")[:5], rows))
        types = {r[1] for r in rows}
        if not rows or not types <= CONSISTENT or expected_isoform[name] not in {r[0] for r in rows}:
            bad += 1
            print("   VIOLATION: read is an exact full-length copy of %s but is reported as %s" %
                  (expected_isoform[name], sorted(types) or "nothing"))
    shutil.rmtree(WORK, ignore_errors=True)
    if bad:
        print("C01 violated for %d exact reads (A-rich / T-rich genomic 3' end taken for a polyA tail)" % bad)
        return 1
    print("no violation")
    return 0


if __name__ == "__main__":
    sys.exit(main())
