#!/usr/bin/env python3
"""
C01, finding 3: the only compatible isoform is dropped from the candidate list because annotated introns that lie
beyond the read's polyA tail (marked -2 in the read's profile) are counted as intron differences.

Case A (main).  Gene G1 (+):
    T   501-800, 1501-1700, 2501-3000                  (terminal exon ends 10 bp behind the donor site 2990)
    Y   501-800, 1501-1700, 2501-2900                  (same intron chain, ends 100 bp earlier)
    A0..A{n-1}  501-800, 1501-1700, 2501-2990, <own last exon>   (n isoforms that use the donor 2990)
The read follows T exactly, its alignment ends at 2980 (20 bp before the annotated end of T) and it carries a
soft-clipped polyA tail.  With n = 4 IsoQuant reports what one expects:  T, `unique`,
`correct_polya_site_right:2980`.  With n = 5 (one more isoform that has nothing to do with the read) the very same
read is reported `inconsistent_non_intronic`, assigned to Y with `alternative_polya_site_right`; T - the only isoform
compatible with the read - is not reported at all.

Why: the introns 2991-... of A0..A4 start behind polyA position + delta, so the read's intron profile holds -2 for them
(src/long_read_profiles.py:165-170).  T overlaps them by 10 bp, its profile holds -1 ("T does not have this intron").
-2 != -1, so (1) T fails the exact comparison of match_consistent (harmless, the read is re-examined by
match_inconsistent) and (2) LongReadAssigner.select_similar_isoforms (src/long_read_assigner.py:176-192) counts five
"intron differences" for T via common.difference_in_present_features (src/common.py:640-670), while Y (which ends
before those introns: profile -2) has none; candidates with more than best+3 differences are discarded, i.e. T.
Only Y is compared with the read in detail -> alternative polyA site -> inconsistent.

Case B (variant, same root cause; depends on how one reads the statement): a 5'-truncated read of a 9-exon
plus-strand isoform T2 that covers its last two exons exactly, has a genuine polyA tail at the 3' end of T2 and a
T-rich soft-clipped 5' head.  The 7 introns of T2 in front of the head are marked -2, T2 gets 7 differences and is
discarded, the read is reported `inconsistent` (alt_donor_site_known) with respect to a 2-exon isoform X.
With only 6 introns in front of the read the same read is `unique` to T2.

exit 1 = violated, 0 = not violated
"""
import os
import random
import shutil
import subprocess
import sys

import pysam

HERE = os.path.dirname(os.path.abspath(__file__))
ISOQUANT = os.path.join(HERE, "isoquant.py")
PY = "/venv/bin/python" if os.path.exists("/venv/bin/python") else sys.executable
WD = "/tmp/hunt3scratch_C01/finding3"
CONSISTENT = ("unique", "unique_minor_difference", "ambiguous")


def rand_seq(n, rng):
    # every third base is C or G: no A-rich / T-rich window, nothing in the genome looks like a polyA tail
    return "".join(rng.choice("ACGT") if i % 3 else rng.choice("CG") for i in range(n))


def write_gtf(path, transcripts, gene_id="G1", chrom="chr1", strand="+"):
    with open(path, "w") as f:
        start = min(e[0][0] for e in transcripts.values())
        end = max(e[-1][1] for e in transcripts.values())
        f.write('%s\tsrc\tgene\t%d\t%d\t.\t%s\t.\tgene_id "%s";\n' % (chrom, start, end, strand, gene_id))
        for tid, exons in transcripts.items():
            f.write('%s\tsrc\ttranscript\t%d\t%d\t.\t%s\t.\tgene_id "%s"; transcript_id "%s";\n'
                    % (chrom, exons[0][0], exons[-1][1], strand, gene_id, tid))
            for s, e in exons:
                f.write('%s\tsrc\texon\t%d\t%d\t.\t%s\t.\tgene_id "%s"; transcript_id "%s";\n'
                        % (chrom, s, e, strand, gene_id, tid))


def write_bam(path, seq, reads):
    header = {"HD": {"VN": "1.6", "SO": "coordinate"}, "SQ": [{"SN": "chr1", "LN": len(seq)}]}
    recs = []
    for name, blocks, soft_left, soft_right in reads:
        a = pysam.AlignedSegment()
        a.query_name = name
        a.reference_id = 0
        a.reference_start = blocks[0][0] - 1
        a.mapping_quality = 60
        a.flag = 0
        cig = [(4, len(soft_left))] if soft_left else []
        q = soft_left
        for i, (s, e) in enumerate(blocks):
            if i:
                cig.append((3, s - blocks[i - 1][1] - 1))
            cig.append((0, e - s + 1))
            q += seq[s - 1:e]
        if soft_right:
            cig.append((4, len(soft_right)))
        q += soft_right
        a.cigartuples = cig
        a.query_sequence = q
        a.query_qualities = pysam.qualitystring_to_array("I" * len(q))
        recs.append(a)
    recs.sort(key=lambda r: r.reference_start)
    with pysam.AlignmentFile(path, "wb", header=header) as out:
        for a in recs:
            out.write(a)
    pysam.index(path)


def run(tag, fasta, gtf, bam):
    outdir = os.path.join(WD, "out_" + tag)
    env = dict(os.environ, HOME=os.path.join(WD, "home"))
    cmd = [PY, ISOQUANT, "--reference", fasta, "--genedb", gtf, "--complete_genedb", "--bam", bam,
           "--data_type", "nanopore", "-o", outdir, "--threads", "1", "--no_gzip", "--no_model_construction"]
    p = subprocess.run(cmd, env=env, stdout=subprocess.PIPE, stderr=subprocess.STDOUT, text=True)
    if p.returncode != 0:
        print(p.stdout[-3000:])
        raise SystemExit(2)
    res = {}
    for line in open(os.path.join(outdir, "OUT", "OUT.read_assignments.tsv")):
        if line.startswith("#"):
            continue
        v = line.rstrip("\n").split("\t")
        res.setdefault(v[0], []).append((v[3], v[5], v[6]))
    return res


def main():
    rng = random.Random(8)
    shutil.rmtree(WD, ignore_errors=True)
    os.makedirs(os.path.join(WD, "home"))
    seq = rand_seq(14000, rng)
    fasta = os.path.join(WD, "genome.fa")
    with open(fasta, "w") as f:
        f.write(">chr1\n")
        for i in range(0, len(seq), 60):
            f.write(seq[i:i + 60] + "\n")
    violated = False

    # ---------------- case A
    T = [(501, 800), (1501, 1700), (2501, 3000)]
    Y = [(501, 800), (1501, 1700), (2501, 2900)]
    read_blocks = [(501, 800), (1501, 1700), (2501, 2980)]
    reads = [("T_polyA_20bp_before_end", read_blocks, "", "A" * 30),
             ("T_polyA_at_end", T, "", "A" * 30)]
    bam = os.path.join(WD, "readsA.bam")
    write_bam(bam, seq, reads)
    for n in (4, 5):
        trs = {"T": T, "Y": Y}
        for i in range(n):
            trs["A%d" % i] = [(501, 800), (1501, 1700), (2501, 2990), (4001 + 700 * i, 4300 + 700 * i)]
        gtf = os.path.join(WD, "annotA%d.gtf" % n)
        write_gtf(gtf, trs)
        res = run("A%d" % n, fasta, gtf, bam)
        print("case A, %d isoforms use the donor 2990:" % n)
        for name, _, _, _ in reads:
            print("   %-26s %s" % (name, res.get(name)))
        got = res.get("T_polyA_20bp_before_end", [])
        ok = got and all(t in CONSISTENT for _, t, _ in got) and any(i == "T" for i, _, _ in got) \
            and all(i in ("T",) for i, _, _ in got)
        if not ok:
            violated = True
            print("   VIOLATION: the read follows T (3' end 20 bp short of the annotated end, polyA tail), T is the "
                  "only compatible isoform, reported: %s" % got)

    # ---------------- case B (variant)
    T2 = [(501, 800), (1501, 1700), (2501, 2700), (3501, 3700), (4501, 4700), (5501, 5700), (6501, 6700),
          (7501, 7900), (9001, 9400)]
    X = [(7501, 7775), (9001, 9400)]
    gtf = os.path.join(WD, "annotB.gtf")
    write_gtf(gtf, {"T2": T2, "X": X})
    reads = [("last2exons_polyA", [(7601, 7900), (9001, 9400)], "", "A" * 30),
             ("last2exons_polyA_Trich_head", [(7601, 7900), (9001, 9400)], "T" * 30, "A" * 30),
             ("last3exons_polyA_Trich_head", [(6601, 6700), (7501, 7900), (9001, 9400)], "T" * 30, "A" * 30)]
    bam = os.path.join(WD, "readsB.bam")
    write_bam(bam, seq, reads)
    res = run("B", fasta, gtf, bam)
    print("case B (T-rich soft-clipped 5' head + genuine polyA tail at the 3' end of T2):")
    for name, _, _, _ in reads:
        print("   %-28s %s" % (name, res.get(name)))
    got = res.get("last2exons_polyA_Trich_head", [])
    if not (got and all(t in CONSISTENT for _, t, _ in got) and all(i == "T2" for i, _, _ in got)):
        violated = True
        print("   VIOLATION (variant): the alignment is an exact 5'-truncated copy of T2 with a polyA tail at the 3' "
              "end of T2, reported: %s" % got)

    print()
    print("RESULT:", "property C01 violated" if violated else "no violation")
    return 1 if violated else 0


if __name__ == "__main__":
    sys.exit(main())
