#!/usr/bin/env python3
"""
C01 finding 3 (annotation-format gap): the documentation says the annotation may be given "in GTF/GFF format", but in a
GFF3 file only features of type `gene` and `transcript`/`mRNA` are used.  Standard GFF3 annotations (Ensembl, NCBI)
type non-coding transcripts as `lnc_RNA`, `ncRNA`, ... and their genes as `ncRNA_gene`/`pseudogene`.  Such isoforms are
silently ignored (no warning), so a read that is an exact full-length copy of an annotated isoform is reported
`intergenic` (gene typed ncRNA_gene) or `inconsistent` against another isoform (transcript typed lnc_RNA).

Exit code 1 = property violated, 0 = not violated.
"""
import os
import random
import shutil
import subprocess
import sys

import pysam

REPO = os.path.dirname(os.path.abspath(__file__))
WORK = "/tmp/huntscratch_C01/demo3"
PY = "/venv/bin/python" if os.path.exists("/venv/bin/python") else sys.executable
CONSISTENT = {"unique", "unique_minor_difference", "ambiguous"}


def main():
    shutil.rmtree(WORK, ignore_errors=True)
    os.makedirs(os.path.join(WORK, "home"))
    rnd = random.Random(5)
    L = 8000
    g = [rnd.choice("ACGT") for _ in range(L)]
    # gene id, gene type, strand, [(transcript id, transcript type, exons)]
    annot = [("GA", "gene", "+", [("TA1", "mRNA", [(1000, 1200), (1500, 1800)]),
                                   ("TA2", "lnc_RNA", [(1000, 1200), (1500, 1600), (2000, 2300)])]),
             ("GB", "ncRNA_gene", "-", [("TB1", "lnc_RNA", [(4000, 4300), (4600, 4800), (5100, 5350)])])]
    for gid, gtype, strand, txs in annot:
        for tid, ttype, exons in txs:
            for i in range(len(exons) - 1):
                a, b = exons[i][1] + 1, exons[i + 1][0] - 1
                l, r = ("GT", "AG") if strand == "+" else ("CT", "AC")
                g[a - 1], g[a] = l[0], l[1]
                g[b - 2], g[b - 1] = r[0], r[1]
    fa = os.path.join(WORK, "genome.fa")
    with open(fa, "w") as f:
        f.write(">chr1\n")
        s = "".join(g)
        for i in range(0, L, 60):
            f.write(s[i:i + 60] + "\n")
    gff = os.path.join(WORK, "annot.gff3")
    with open(gff, "w") as f:
        f.write("##gff-version 3\n")
        for gid, gtype, strand, txs in annot:
            gs = min(e[0][0] for _, _, e in txs)
            ge = max(e[-1][1] for _, _, e in txs)
            f.write("chr1\tsrc\t%s\t%d\t%d\t.\t%s\t.\tID=%s\n" % (gtype, gs, ge, strand, gid))
            for tid, ttype, exons in txs:
                f.write("chr1\tsrc\t%s\t%d\t%d\t.\t%s\t.\tID=%s;Parent=%s\n" %
                        (ttype, exons[0][0], exons[-1][1], strand, tid, gid))
                for i, (s_, e_) in enumerate(exons):
                    f.write("chr1\tsrc\texon\t%d\t%d\t.\t%s\t.\tID=%s.e%d;Parent=%s\n" % (s_, e_, strand, tid, i, tid))

    reads = [("copy_of_TA1", "TA1", annot[0][3][0][2], False),
             ("copy_of_TA2", "TA2", annot[0][3][1][2], False),
             ("copy_of_TB1", "TB1", annot[1][3][0][2], True)]
    header = {"HD": {"VN": "1.0", "SO": "coordinate"}, "SQ": [{"SN": "chr1", "LN": L}]}
    bam = os.path.join(WORK, "reads.bam")
    with pysam.AlignmentFile(bam, "wb", header=header) as out:
        for name, tid, exons, rev in sorted(reads, key=lambda r: r[2][0][0]):
            cig, seq = [], ""
            for i, (s_, e_) in enumerate(exons):
                if i:
                    cig.append((3, s_ - exons[i - 1][1] - 1))
                cig.append((0, e_ - s_ + 1))
                seq += "".join(g[s_ - 1:e_])
            a = pysam.AlignedSegment(out.header)
            a.query_name = name
            a.reference_id = 0
            a.reference_start = exons[0][0] - 1
            a.cigartuples = cig
            a.query_sequence = seq
            a.flag = 16 if rev else 0
            a.mapping_quality = 60
            a.query_qualities = pysam.qualitystring_to_array("I" * len(seq))
            out.write(a)
    pysam.index(bam)

    bad = 0
    for extra in (["--complete_genedb"], []):
        outdir = os.path.join(WORK, "out")
        shutil.rmtree(outdir, ignore_errors=True)
        cmd = [PY, os.path.join(REPO, "isoquant.py"), "--reference", fa, "--genedb", gff, "--bam", bam,
               "--data_type", "nanopore", "-o", outdir, "--threads", "1", "--no_gzip", "--no_model_construction",
               "--clean_start"] + extra
        p = subprocess.run(cmd, env=dict(os.environ, HOME=os.path.join(WORK, "home")), capture_output=True, text=True)
        if p.returncode != 0:
            print(p.stdout[-2000:], p.stderr[-2000:])
            print("IsoQuant failed")
            return 1
        warnings = [l for l in p.stdout.split("\n") if "WARNING" in l or "ERROR" in l]
        res = {}
        for line in open(os.path.join(outdir, "OUT", "OUT.read_assignments.tsv")):
            if line.startswith("#"):
                continue
            t = line.rstrip("\n").split("\t")
            res.setdefault(t[0], []).append((t[3], t[5], t[6]))
        print("options: %s; warnings/errors printed by IsoQuant: %s" % (" ".join(extra) or "(none)", [w.split(" - ", 2)[-1] for w in warnings]))
        for name, tid, exons, rev in reads:
            rows = res.get(name, [])
            ok = rows and {r[1] for r in rows} <= CONSISTENT and tid in {r[0] for r in rows}
            print("  %-12s exact copy of annotated %s -> %s%s" % (name, tid, rows, "" if ok else "   <-- VIOLATION"))
            bad += 0 if ok else 1
    shutil.rmtree(WORK, ignore_errors=True)
    if bad:
        print("C01 violated: GFF3 isoforms typed lnc_RNA / genes typed ncRNA_gene are silently ignored")
        return 1
    print("no violation")
    return 0


if __name__ == "__main__":
    sys.exit(main())
