#!/venv/bin/python
"""
C01, second pass, finding 1.

Two BAM files of one experiment (two samples / replicas) that happen to use the same read names
(per-sample sequential names such as "transcript/1" of clustered Iso-Seq transcripts, "read_1", ...).

Every read follows exactly one annotated isoform that is the ONLY isoform compatible with it:
    s1.bam:  transcript/1 -> A1 (gene GA, chr1)      transcript/2 -> A1      transcript/3 -> B1 (gene GB, chr1)
    s2.bam:  transcript/1 -> B1 (gene GB, chr1)      transcript/2 -> A1      transcript/3 -> C1 (gene GC, chr2)

Property C01 demands: consistent type, assignment unique to the source isoform, for every read of every file.
Observed: reads with the same name in different files are merged as if they were multiple alignments of ONE read:
  * transcript/1 and transcript/3 are reported "ambiguous" between two unrelated genes (even different chromosomes),
  * one of the two transcript/2 reads disappears from the output altogether.
Each file processed on its own gives 3 x "unique", i.e. the alignments/annotation themselves are fine.

Exit 1 if the property is violated, 0 otherwise.
"""
import os
import random
import shutil
import subprocess
import sys

import pysam

REPO = os.path.dirname(os.path.abspath(__file__))
SCRATCH = "/tmp/hunt2scratch_C01/hunt2_C01_1"
PY = "/venv/bin/python"


def make_genome(chroms, seed=7):
    rnd = random.Random(seed)
    g = {}
    for name, ln in chroms.items():
        s = bytearray(ord("ACGT"[rnd.randrange(4)]) for _ in range(ln))
        for i in range(0, ln, 3):  # no A/T-rich windows anywhere
            s[i] = ord("CG"[(i // 3) % 2])
        g[name] = s
    return g


def set_splice_sites(genome, chrom, exons):
    for i in range(len(exons) - 1):
        a, b = exons[i][1] + 1, exons[i + 1][0] - 1
        genome[chrom][a - 1:a + 1] = b"GT"
        genome[chrom][b - 2:b] = b"AG"


def write_gtf(genes, path):
    with open(path, "w") as f:
        for chrom, gid, trs in genes:
            allex = [e for t in trs.values() for e in t]
            f.write('%s\tt\tgene\t%d\t%d\t.\t+\t.\tgene_id "%s";\n' % (chrom, min(e[0] for e in allex), max(e[1] for e in allex), gid))
            for tid, ex in trs.items():
                f.write('%s\tt\ttranscript\t%d\t%d\t.\t+\t.\tgene_id "%s"; transcript_id "%s";\n' % (chrom, ex[0][0], ex[-1][1], gid, tid))
                for e in ex:
                    f.write('%s\tt\texon\t%d\t%d\t.\t+\t.\tgene_id "%s"; transcript_id "%s";\n' % (chrom, e[0], e[1], gid, tid))


def write_bam(reads, genome, chroms, path):
    header = {"HD": {"VN": "1.0", "SO": "coordinate"}, "SQ": [{"SN": n, "LN": l} for n, l in chroms.items()]}
    names = list(chroms)
    tmp = path + ".tmp.bam"
    with pysam.AlignmentFile(tmp, "wb", header=header) as out:
        for name, chrom, exons in sorted(reads, key=lambda r: (names.index(r[1]), r[2][0][0])):
            a = pysam.AlignedSegment(out.header)
            a.query_name = name
            a.query_sequence = "".join(genome[chrom][e[0] - 1:e[1]].decode() for e in exons)
            a.flag = 0
            a.reference_id = names.index(chrom)
            a.reference_start = exons[0][0] - 1
            a.mapping_quality = 60
            cig = []
            for i, e in enumerate(exons):
                if i:
                    cig.append((3, e[0] - exons[i - 1][1] - 1))
                cig.append((0, e[1] - e[0] + 1))
            a.cigartuples = cig
            out.write(a)
    pysam.sort("-o", path, tmp)
    os.remove(tmp)
    pysam.index(path)


def run(fa, gtf, bams, out):
    home = os.path.join(SCRATCH, "home")
    os.makedirs(home, exist_ok=True)
    env = dict(os.environ, HOME=home)
    cmd = [PY, os.path.join(REPO, "isoquant.py"), "--reference", fa, "--genedb", gtf, "--complete_genedb",
           "--bam"] + bams + ["--data_type", "nanopore", "-o", out, "--threads", "1", "--no_gzip"]
    p = subprocess.run(cmd, env=env, stdout=subprocess.PIPE, stderr=subprocess.STDOUT, text=True)
    if p.returncode != 0:
        print(p.stdout[-3000:])
        raise SystemExit("IsoQuant failed (rc=%d) - cannot evaluate" % p.returncode)
    res = []
    for line in open(os.path.join(out, "OUT", "OUT.read_assignments.tsv")):
        if line.startswith("#"):
            continue
        v = line.rstrip("\n").split("\t")
        res.append((v[0], v[1], v[3], v[5], v[7]))  # read, chr, isoform, type, exons
    return res


def main():
    if os.path.exists(SCRATCH):
        shutil.rmtree(SCRATCH)
    os.makedirs(SCRATCH)
    chroms = {"chr1": 30000, "chr2": 12000}
    genome = make_genome(chroms)
    A1 = [(1000, 1500), (2000, 2300), (3000, 3600)]
    A2 = [(1000, 1500), (3000, 3600)]
    B1 = [(11000, 11500), (12000, 12300), (13000, 13600)]
    C1 = [(4000, 4400), (5000, 5300), (6000, 6500)]
    for chrom, ex in (("chr1", A1), ("chr1", A2), ("chr1", B1), ("chr2", C1)):
        set_splice_sites(genome, chrom, ex)
    fa = os.path.join(SCRATCH, "genome.fa")
    with open(fa, "w") as f:
        for n, s in genome.items():
            f.write(">%s\n%s\n" % (n, s.decode()))
    gtf = os.path.join(SCRATCH, "annot.gtf")
    write_gtf([("chr1", "GA", {"A1": A1, "A2": A2}), ("chr1", "GB", {"B1": B1}), ("chr2", "GC", {"C1": C1})], gtf)

    files = {
        "s1": [("transcript/1", "chr1", A1, "A1"), ("transcript/2", "chr1", A1, "A1"), ("transcript/3", "chr1", B1, "B1")],
        "s2": [("transcript/1", "chr1", B1, "B1"), ("transcript/2", "chr1", A1, "A1"), ("transcript/3", "chr2", C1, "C1")],
    }
    bams = {}
    for s, reads in files.items():
        bams[s] = os.path.join(SCRATCH, s + ".bam")
        write_bam([(n, c, e) for n, c, e, _ in reads], genome, chroms, bams[s])

    def exstr(ex):
        return ",".join("%d-%d" % e for e in ex)

    problems = []
    # control: every file alone
    for s, reads in files.items():
        res = run(fa, gtf, [bams[s]], os.path.join(SCRATCH, "out_" + s))
        got = sorted((r[0], r[2], r[3]) for r in res)
        exp = sorted((n, t, "unique") for n, c, e, t in reads)
        print("control, %s.bam alone: %s" % (s, got))
        if got != exp:
            problems.append("control run of %s.bam alone is not 3 x unique (unexpected): %s" % (s, got))

    # both files = one experiment with two samples
    res = run(fa, gtf, [bams["s1"], bams["s2"]], os.path.join(SCRATCH, "out_both"))
    print("both files together:")
    for r in res:
        print("   ", r)
    for s, reads in files.items():
        for n, c, e, t in reads:
            recs = [r for r in res if r[0] == n and r[1] == c and r[4] == exstr(e)]
            if not recs:
                problems.append("%s of %s.bam (follows %s exactly): no record in read_assignments.tsv" % (n, s, t))
                continue
            for r in recs:
                if r[2] != t or r[3] not in ("unique", "unique_minor_difference"):
                    problems.append("%s of %s.bam follows %s exactly and %s is the only compatible isoform, "
                                    "but it is reported as %s to %s" % (n, s, t, t, r[3], r[2]))
    # the two transcript/2 reads lie at the same place: two records are expected
    n_t2 = len([r for r in res if r[0] == "transcript/2"])
    if n_t2 != 2:
        problems.append("two different reads named transcript/2 (one per file) follow A1; %d record(s) reported" % n_t2)

    shutil.rmtree(SCRATCH, ignore_errors=True)
    if problems:
        print("\nPROPERTY C01 VIOLATED:")
        for p in problems:
            print("  - " + p)
        return 1
    print("OK: every read is assigned uniquely to its source isoform")
    return 0


if __name__ == "__main__":
    sys.exit(main())
