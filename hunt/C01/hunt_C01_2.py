#!/usr/bin/env python3
"""
C01 finding 2: an unspliced read that lies completely inside an exon of isoform T (exactly compatible with T, no event
at all) but sticks 7..19 bases out of an exon of isoform U into U's *intron* is not assigned to T:
  * if U is a shorter isoform than T the read is assigned UNIQUELY to U (unique_minor_difference, with the event
    exon_elongation:N on U) and T is dropped -- in every matching strategy, including `exact` (delta = 0);
  * if T and U have similar lengths the read is reported `ambiguous` between T and U.
As soon as the overhang reaches 20 bases the very same read is assigned `unique` to T (the only compatible isoform).

Annotation (gene GA, + strand):
   T : 1000-1200, 1500-2100, 2500-5800
   U :            1500-1800, 2500-2600          (intron of U: 1801-2499)
Reads: a single aligned block 1520-(1800+x); bases 1801..1800+x are exonic in T and intronic in U.
Exit code 1 = property violated, 0 = not violated.
"""
import os
import random
import shutil
import subprocess
import sys

import pysam

REPO = os.path.dirname(os.path.abspath(__file__))
WORK = "/tmp/huntscratch_C01/demo2"
PY = "/venv/bin/python" if os.path.exists("/venv/bin/python") else sys.executable
DELTA = {"exact": 0, "precise": 4, "default": 6, "loose": 12}


def main():
    shutil.rmtree(WORK, ignore_errors=True)
    os.makedirs(os.path.join(WORK, "home"))
    rnd = random.Random(11)
    L = 8000
    g = [rnd.choice("ACGT") for _ in range(L)]
    annot = [("GA", "+", "T", [(1000, 1200), (1500, 2100), (2500, 5800)]),
             ("GA", "+", "U", [(1500, 1800), (2500, 2600)])]
    for gid, strand, tid, exons in annot:
        for i in range(len(exons) - 1):
            a, b = exons[i][1] + 1, exons[i + 1][0] - 1
            g[a - 1], g[a] = "G", "T"
            g[b - 2], g[b - 1] = "A", "G"
    fa = os.path.join(WORK, "genome.fa")
    with open(fa, "w") as f:
        f.write(">chr1\n")
        s = "".join(g)
        for i in range(0, L, 60):
            f.write(s[i:i + 60] + "\n")
    gtf = os.path.join(WORK, "annot.gtf")
    with open(gtf, "w") as f:
        f.write('chr1\tsrc\tgene\t1000\t5800\t.\t+\t.\tgene_id "GA";\n')
        for gid, strand, tid, exons in annot:
            f.write('chr1\tsrc\ttranscript\t%d\t%d\t.\t+\t.\tgene_id "GA"; transcript_id "%s";\n' %
                    (exons[0][0], exons[-1][1], tid))
            for s_, e_ in exons:
                f.write('chr1\tsrc\texon\t%d\t%d\t.\t+\t.\tgene_id "GA"; transcript_id "%s";\n' % (s_, e_, tid))

    overhangs = [13, 15, 19, 20, 25]
    header = {"HD": {"VN": "1.0", "SO": "coordinate"}, "SQ": [{"SN": "chr1", "LN": L}]}
    bam = os.path.join(WORK, "reads.bam")
    with pysam.AlignmentFile(bam, "wb", header=header) as out:
        for x in overhangs:
            s_, e_ = 1520, 1800 + x
            a = pysam.AlignedSegment(out.header)
            a.query_name = "mono_overhang_%02d" % x
            a.reference_id = 0
            a.reference_start = s_ - 1
            a.cigartuples = [(0, e_ - s_ + 1)]
            a.query_sequence = "".join(g[s_ - 1:e_])
            a.flag = 0
            a.mapping_quality = 60
            a.query_qualities = pysam.qualitystring_to_array("I" * (e_ - s_ + 1))
            out.write(a)
    pysam.index(bam)

    bad = 0
    for strategy in ("exact", "precise", "default", "loose"):
        outdir = os.path.join(WORK, "out_" + strategy)
        cmd = [PY, os.path.join(REPO, "isoquant.py"), "--reference", fa, "--genedb", gtf, "--complete_genedb",
               "--bam", bam, "--data_type", "nanopore", "--matching_strategy", strategy, "-o", outdir,
               "--threads", "1", "--no_gzip", "--no_model_construction"]
        p = subprocess.run(cmd, env=dict(os.environ, HOME=os.path.join(WORK, "home")), capture_output=True, text=True)
        if p.returncode != 0:
            print(p.stdout[-2000:], p.stderr[-2000:])
            print("IsoQuant failed")
            return 1
        res = {}
        for line in open(os.path.join(outdir, "OUT", "OUT.read_assignments.tsv")):
            if line.startswith("#"):
                continue
            t = line.rstrip("\n").split("\t")
            res.setdefault(t[0], []).append((t[3], t[5], t[6]))
        print("--matching_strategy %s (delta = %d)" % (strategy, DELTA[strategy]))
        for x in overhangs:
            name = "mono_overhang_%02d" % x
            rows = res.get(name, [])
            isoforms = sorted(r[0] for r in rows)
            verdict = ""
            # the overhang into U's intron exceeds delta -> T is the only compatible isoform
            if x > DELTA[strategy] and isoforms != ["T"]:
                bad += 1
                verdict = "   <-- VIOLATION: only T is compatible (read has %d bases of U's intron, delta=%d)" % \
                          (x, DELTA[strategy])
            print("  read 1520-%d (%2d bases beyond U's exon end): %s%s" % (1800 + x, x, rows, verdict))
    shutil.rmtree(WORK, ignore_errors=True)
    if bad:
        print("C01 violated in %d cases: read exactly inside T's exon is reported for U (with an exon_elongation event) "
              "instead of uniquely for T" % bad)
        return 1
    print("no violation")
    return 0


if __name__ == "__main__":
    sys.exit(main())
