#!/venv/bin/python
"""
C01, second pass, finding 2.

A full-length read that follows an annotated isoform EXACTLY loses its 5'-terminal exon before the assignment,
because that exon is short and T-rich on a plus-strand gene (mirror: A-rich on a minus-strand gene).
The strand-blind polyT/polyA "tail exon" heuristic (PolyAFixer.count_polyt_exons / count_polya_exons, applied in
AlignmentInfo.add_polya_info before any isoform is known) takes the 5' exon for an aligned polyT head / polyA tail,
cuts it off, and the mutilated read is then matched to the isoforms.  As a result the read is reported
"ambiguous" between its source isoform and an isoform that starts one exon later, although the latter lacks an
exon and a junction that the read has - even when the read carries a genuine polyA tail at the other (3') end.

   plus strand :  P1 = e1(1000-1079, first 58 bp ~88 % T)  e2(2000-2300)  e3(3000-3600)      P2 = e2 e3
   minus strand:  M1 = e1(11000-11600) e2(12000-12300) e3(14000-14079, last 58 bp ~88 % A)   M2 = e1 e2
   control     :  K1/K2 = same structure as P1/P2 elsewhere, ordinary sequence in the first exon

Reads: one exact full-length read per P1 / M1 / K1, once without and once with a soft-clipped polyA (polyT) tail
at the isoform's 3' end.  P1 / M1 / K1 is the only compatible isoform for each of them.
Exit 1 if the property is violated, 0 otherwise.
"""
import os
import random
import shutil
import subprocess
import sys

import pysam

REPO = os.path.dirname(os.path.abspath(__file__))
SCRATCH = "/tmp/hunt2scratch_C01/hunt2_C01_2"
PY = "/venv/bin/python"
L = 30000


def make_genome(seed=11):
    rnd = random.Random(seed)
    s = bytearray(ord("ACGT"[rnd.randrange(4)]) for _ in range(L))
    for i in range(0, L, 3):  # no A/T-rich windows by chance
        s[i] = ord("CG"[(i // 3) % 2])
    return s


def splice_sites(g, exons, strand):
    for i in range(len(exons) - 1):
        a, b = exons[i][1] + 1, exons[i + 1][0] - 1
        g[a - 1:a + 1] = b"GT" if strand == "+" else b"CT"
        g[b - 2:b] = b"AG" if strand == "+" else b"AC"


def cigar_of(exons):
    cig = []
    for i, e in enumerate(exons):
        if i:
            cig.append((3, e[0] - exons[i - 1][1] - 1))
        cig.append((0, e[1] - e[0] + 1))
    return cig


def main():
    if os.path.exists(SCRATCH):
        shutil.rmtree(SCRATCH)
    os.makedirs(SCRATCH)
    g = make_genome()
    P1 = [(1000, 1079), (2000, 2300), (3000, 3600)]
    P2 = P1[1:]
    M1 = [(11000, 11600), (12000, 12300), (14000, 14079)]
    M2 = M1[:2]
    K1 = [(21000, 21079), (22000, 22300), (23000, 23600)]
    K2 = K1[1:]
    # T-rich start of P1's first exon (its 5' end), A-rich end of M1's last exon (its 5' end, minus strand)
    for i in range(58):
        g[1000 - 1 + i] = ord("C") if i % 8 == 3 else ord("T")
        g[14079 - 1 - i] = ord("G") if i % 8 == 3 else ord("A")
    splice_sites(g, P1, "+"); splice_sites(g, M1, "-"); splice_sites(g, K1, "+")

    fa = os.path.join(SCRATCH, "genome.fa")
    with open(fa, "w") as f:
        f.write(">chr1\n%s\n" % g.decode())
    gtf = os.path.join(SCRATCH, "annot.gtf")
    with open(gtf, "w") as f:
        for gid, strand, trs in (("GP", "+", {"P1": P1, "P2": P2}), ("GM", "-", {"M1": M1, "M2": M2}),
                                 ("GK", "+", {"K1": K1, "K2": K2})):
            allex = [e for t in trs.values() for e in t]
            f.write('chr1\tt\tgene\t%d\t%d\t.\t%s\t.\tgene_id "%s";\n' % (min(e[0] for e in allex), max(e[1] for e in allex), strand, gid))
            for tid, ex in trs.items():
                f.write('chr1\tt\ttranscript\t%d\t%d\t.\t%s\t.\tgene_id "%s"; transcript_id "%s";\n' % (ex[0][0], ex[-1][1], strand, gid, tid))
                for e in ex:
                    f.write('chr1\tt\texon\t%d\t%d\t.\t%s\t.\tgene_id "%s"; transcript_id "%s";\n' % (e[0], e[1], strand, gid, tid))

    reads = []  # name, exons, reverse, head_t, tail_a, source
    for name, ex, strand in (("P1", P1, "+"), ("M1", M1, "-"), ("K1", K1, "+")):
        reads.append(("full_%s" % name, ex, strand == "-", 0, 0, name))
        reads.append(("full_%s_polyA" % name, ex, strand == "-", 30 if strand == "-" else 0, 30 if strand == "+" else 0, name))
    bam = os.path.join(SCRATCH, "reads.bam")
    header = {"HD": {"VN": "1.0", "SO": "coordinate"}, "SQ": [{"SN": "chr1", "LN": L}]}
    with pysam.AlignmentFile(bam + ".tmp.bam", "wb", header=header) as out:
        for name, ex, rev, head_t, tail_a, src in sorted(reads, key=lambda r: r[1][0][0]):
            a = pysam.AlignedSegment(out.header)
            a.query_name = name
            seq = "".join(g[e[0] - 1:e[1]].decode() for e in ex)
            cig = cigar_of(ex)
            if head_t:
                seq = "T" * head_t + seq
                cig = [(4, head_t)] + cig
            if tail_a:
                seq = seq + "A" * tail_a
                cig = cig + [(4, tail_a)]
            a.query_sequence = seq
            a.flag = 16 if rev else 0
            a.reference_id = 0
            a.reference_start = ex[0][0] - 1
            a.mapping_quality = 60
            a.cigartuples = cig
            out.write(a)
    pysam.sort("-o", bam, bam + ".tmp.bam")
    os.remove(bam + ".tmp.bam")
    pysam.index(bam)

    home = os.path.join(SCRATCH, "home")
    os.makedirs(home, exist_ok=True)
    outdir = os.path.join(SCRATCH, "out")
    cmd = [PY, os.path.join(REPO, "isoquant.py"), "--reference", fa, "--genedb", gtf, "--complete_genedb", "--bam", bam,
           "--data_type", "nanopore", "-o", outdir, "--threads", "1", "--no_gzip"]
    p = subprocess.run(cmd, env=dict(os.environ, HOME=home), stdout=subprocess.PIPE, stderr=subprocess.STDOUT, text=True)
    if p.returncode != 0:
        print(p.stdout[-3000:])
        raise SystemExit("IsoQuant failed (rc=%d) - cannot evaluate" % p.returncode)
    res = {}
    for line in open(os.path.join(outdir, "OUT", "OUT.read_assignments.tsv")):
        if line.startswith("#"):
            continue
        v = line.rstrip("\n").split("\t")
        res.setdefault(v[0], []).append((v[3], v[5], v[6], v[7]))
    problems = []
    for name, ex, rev, head_t, tail_a, src in reads:
        recs = res.get(name, [])
        print(name, "(aligned exons %s)" % ",".join("%d-%d" % e for e in ex))
        for r in recs:
            print("     ->", r)
        isos = sorted(set(r[0] for r in recs))
        types = sorted(set(r[1] for r in recs))
        if isos != [src] or not set(types) <= {"unique", "unique_minor_difference"}:
            problems.append("%s follows %s exactly (full length; %s is the only isoform containing its first junction), "
                            "reported: %s to %s" % (name, src, src, "/".join(types), ",".join(isos)))
    shutil.rmtree(SCRATCH, ignore_errors=True)
    if problems:
        print("\nPROPERTY C01 VIOLATED:")
        for q in problems:
            print("  - " + q)
        return 1
    print("OK: every read is assigned uniquely to its source isoform")
    return 0


if __name__ == "__main__":
    sys.exit(main())
