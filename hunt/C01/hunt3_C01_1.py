#!/usr/bin/env python3
"""
C01, finding 1: `--matching_strategy exact` does not switch off the micro-intron tolerance.

docs/cmd.md: "exact - delta = 0, all minor errors are treated as inconsistencies".
docs/formats.md lists `fake_micro_intron_retention` among the alignment artifacts (= minor errors).

A read that follows the only isoform T0 of a gene but RETAINS its 40 bp intron (one continuous aligned block
over exon 1 + intron + exon 2, i.e. a retained intron / a 40 bp piece of sequence that T0 does not have)
is reported `unique_minor_difference` (counted as a unique, consistent read of T0) under the exact strategy,
exactly as under the default strategy.  With a tolerance of 0 a retained intron is a structural change beyond
all tolerances of the chosen strategy, so the converse part of C01 is violated.

exit 1 = violated, 0 = not violated
"""
import os
import shutil
import subprocess
import sys
import random

import pysam

HERE = os.path.dirname(os.path.abspath(__file__))
ISOQUANT = os.path.join(HERE, "isoquant.py")
PY = "/venv/bin/python" if os.path.exists("/venv/bin/python") else sys.executable
WD = "/tmp/hunt3scratch_C01/finding1"


def rand_seq(n, rng):
    # no A-/T-rich stretches: nothing looks like a polyA tail
    return "".join(rng.choice("ACGT") if i % 3 else rng.choice("CG") for i in range(n))


def main():
    rng = random.Random(5)
    shutil.rmtree(WD, ignore_errors=True)
    os.makedirs(os.path.join(WD, "home"))
    seq = rand_seq(6000, rng)
    fasta = os.path.join(WD, "genome.fa")
    with open(fasta, "w") as f:
        f.write(">chr1\n")
        for i in range(0, len(seq), 60):
            f.write(seq[i:i + 60] + "\n")

    # T0: intron 801-840 is 40 bp long
    t0 = [(501, 800), (841, 1200), (2001, 2300), (3001, 3400)]
    gtf = os.path.join(WD, "annot.gtf")
    with open(gtf, "w") as f:
        f.write('chr1\tsrc\tgene\t501\t3400\t.\t+\t.\tgene_id "G1";\n')
        f.write('chr1\tsrc\ttranscript\t501\t3400\t.\t+\t.\tgene_id "G1"; transcript_id "T0";\n')
        for s, e in t0:
            f.write('chr1\tsrc\texon\t%d\t%d\t.\t+\t.\tgene_id "G1"; transcript_id "T0";\n' % (s, e))

    reads = {
        "exact_T0": t0,
        "retained_40bp_intron": [(501, 1200), (2001, 2300), (3001, 3400)],
    }
    header = {"HD": {"VN": "1.6", "SO": "coordinate"}, "SQ": [{"SN": "chr1", "LN": len(seq)}]}
    bam = os.path.join(WD, "reads.bam")
    with pysam.AlignmentFile(bam, "wb", header=header) as out:
        for name, blocks in reads.items():
            a = pysam.AlignedSegment()
            a.query_name = name
            a.reference_id = 0
            a.reference_start = blocks[0][0] - 1
            a.mapping_quality = 60
            a.flag = 0
            cig = []
            q = ""
            for i, (s, e) in enumerate(blocks):
                if i:
                    cig.append((3, s - blocks[i - 1][1] - 1))
                cig.append((0, e - s + 1))
                q += seq[s - 1:e]
            a.cigartuples = cig
            a.query_sequence = q
            a.query_qualities = pysam.qualitystring_to_array("I" * len(q))
            out.write(a)
    pysam.index(bam)

    result = {}
    for strategy in ("exact", "default"):
        outdir = os.path.join(WD, "out_" + strategy)
        env = dict(os.environ, HOME=os.path.join(WD, "home"))
        cmd = [PY, ISOQUANT, "--reference", fasta, "--genedb", gtf, "--complete_genedb", "--bam", bam,
               "--data_type", "nanopore", "--matching_strategy", strategy, "-o", outdir, "--threads", "1",
               "--no_gzip", "--no_model_construction"]
        p = subprocess.run(cmd, env=env, stdout=subprocess.PIPE, stderr=subprocess.STDOUT, text=True)
        if p.returncode != 0:
            print(p.stdout[-3000:])
            print("IsoQuant failed")
            return 2
        for line in open(os.path.join(outdir, "OUT", "OUT.read_assignments.tsv")):
            if line.startswith("#"):
                continue
            v = line.rstrip("\n").split("\t")
            result[(strategy, v[0])] = (v[3], v[5], v[6])
            print("%-8s %-22s isoform=%s type=%s events=%s" % (strategy, v[0], v[3], v[5], v[6]))

    iso, atype, events = result.get(("exact", "retained_40bp_intron"), (None, None, None))
    if atype in ("unique", "unique_minor_difference", "ambiguous"):
        print("\nVIOLATION: under --matching_strategy exact (documented: delta = 0, all minor errors are treated as "
              "inconsistencies) a read that retains the 40 bp intron 801-840 of T0 is reported '%s' (%s)"
              % (atype, events))
        return 1
    print("\nno violation: the read with the retained intron is reported '%s'" % atype)
    return 0


if __name__ == "__main__":
    sys.exit(main())
