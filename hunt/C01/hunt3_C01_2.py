#!/usr/bin/env python3
"""
C01, finding 2 (robustness; borderline for C01): a contig of the reference FASTA that is absent from the BAM header
aborts the whole run, no read is assigned at all.

The list of chromosomes to process is taken from the FASTA (DatasetProcessor.get_chr_list), and for each of them
AlignmentCollector.__init__ (src/alignment_processor.py:248-250) asks the FIRST BAM file for the length of that
contig: `self.bam_pairs[0][0].get_reference_length(self.chr_id)` -> KeyError "unknown reference" for a contig the
reads were never aligned to (decoy / spike-in / unplaced scaffold that is in the FASTA given to IsoQuant but not in
the @SQ lines of the BAM, or a BAM whose header was reduced).  docs/ only ask that FASTA and annotation use the same
names; nothing is said about the BAM header.  The reads of chr1 follow the annotated isoform exactly and should be
reported `unique`; instead IsoQuant exits with an error and writes no read_assignments.tsv.

exit 1 = violated (run fails / read not reported), 0 = not violated
"""
import os
import random
import shutil
import subprocess
import sys

import pysam

HERE = os.path.dirname(os.path.abspath(__file__))
ISOQUANT = os.path.join(HERE, "isoquant.py")
PY = "/venv/bin/python" if os.path.exists("/venv/bin/python") else sys.executable
WD = "/tmp/hunt3scratch_C01/finding2"


def rand_seq(n, rng):
    return "".join(rng.choice("ACGT") if i % 3 else rng.choice("CG") for i in range(n))


def main():
    rng = random.Random(6)
    shutil.rmtree(WD, ignore_errors=True)
    os.makedirs(os.path.join(WD, "home"))
    contigs = {"chr1": rand_seq(6000, rng), "chrUn_decoy": rand_seq(1500, rng)}
    fasta = os.path.join(WD, "genome.fa")
    with open(fasta, "w") as f:
        for name, seq in contigs.items():
            f.write(">%s\n" % name)
            for i in range(0, len(seq), 60):
                f.write(seq[i:i + 60] + "\n")

    t0 = [(501, 800), (1001, 1200), (2001, 2300)]
    gtf = os.path.join(WD, "annot.gtf")
    with open(gtf, "w") as f:
        f.write('chr1\tsrc\tgene\t501\t2300\t.\t+\t.\tgene_id "G1";\n')
        f.write('chr1\tsrc\ttranscript\t501\t2300\t.\t+\t.\tgene_id "G1"; transcript_id "T0";\n')
        for s, e in t0:
            f.write('chr1\tsrc\texon\t%d\t%d\t.\t+\t.\tgene_id "G1"; transcript_id "T0";\n' % (s, e))

    # the BAM header only knows chr1
    header = {"HD": {"VN": "1.6", "SO": "coordinate"}, "SQ": [{"SN": "chr1", "LN": len(contigs["chr1"])}]}
    bam = os.path.join(WD, "reads.bam")
    seq = contigs["chr1"]
    with pysam.AlignmentFile(bam, "wb", header=header) as out:
        a = pysam.AlignedSegment()
        a.query_name = "full_T0"
        a.reference_id = 0
        a.reference_start = 500
        a.mapping_quality = 60
        a.flag = 0
        a.cigartuples = [(0, 300), (3, 200), (0, 200), (3, 800), (0, 300)]
        q = "".join(seq[s - 1:e] for s, e in t0)
        a.query_sequence = q
        a.query_qualities = pysam.qualitystring_to_array("I" * len(q))
        out.write(a)
    pysam.index(bam)

    outdir = os.path.join(WD, "out")
    env = dict(os.environ, HOME=os.path.join(WD, "home"))
    cmd = [PY, ISOQUANT, "--reference", fasta, "--genedb", gtf, "--complete_genedb", "--bam", bam,
           "--data_type", "nanopore", "-o", outdir, "--threads", "1", "--no_gzip", "--no_model_construction"]
    p = subprocess.run(cmd, env=env, stdout=subprocess.PIPE, stderr=subprocess.STDOUT, text=True)
    tsv = os.path.join(outdir, "OUT", "OUT.read_assignments.tsv")
    rows = []
    if os.path.exists(tsv):
        rows = [l.rstrip("\n").split("\t") for l in open(tsv) if not l.startswith("#")]
    print("IsoQuant exit code:", p.returncode)
    for r in rows:
        print("reported:", r[0], r[3], r[5])
    ok = p.returncode == 0 and any(r[0] == "full_T0" and r[3] == "T0" and r[5] == "unique" for r in rows)
    if not ok:
        tail = [l for l in p.stdout.split("\n") if "Error" in l or "error" in l or "unknown reference" in l]
        print("\n".join(tail[-6:]))
        print("\nVIOLATION: the read full_T0 follows the annotated isoform T0 exactly, but the run aborts "
              "(contig chrUn_decoy of the FASTA is not in the BAM header) and no assignment is reported")
        return 1
    print("\nno violation: full_T0 is reported unique to T0")
    return 0


if __name__ == "__main__":
    sys.exit(main())
