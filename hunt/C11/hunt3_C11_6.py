#!/venv/bin/python
"""
C11 (reflection), finding 6 (borderline, see the note): a novel intron that is similar (within delta) to TWO already
accepted introns is merged into the one with the HIGHER COORDINATES, not into the better supported one.
IntronCollector.cluster_introns (src/intron_graph.py:73-83) collects `similar_introns.append((count, similar_intron))`
with `count` = the support of the intron being placed (the same number in every tuple) and then takes
`sorted(similar_introns, reverse=True)[0]` ("take the best one as a substitute"): the tuple with the largest
coordinates always wins.  Intended is obviously the support of the similar intron.

Input: one '+' gene; noise-free reads with polyA tails of three novel isoforms that differ only in the acceptor
site of a novel exon: 1801 (6 reads), 1805 (2 reads), 1808 (3 reads).  1805 is 4 bp from 1801 and 3 bp from 1808
(both within delta = 6), 1801 and 1808 are 7 bp apart (not similar).
  forward genome : the 1805 reads join the 1808 variant (3 + 2 = 5 reads, higher coordinates); 5 is not below half
                   of 6, both variants survive the graph simplification, the weaker model is then dropped as a
                   near-duplicate; its 1808 reads are lost, the 1805 reads fit the
                   survivor within delta: ONE model (acceptor 1801) with 8 reads
  mirrored genome: the image of 1801 has the higher coordinates, the 1805 reads join it (6 + 2 = 8); the 1808 variant
                   (3 < 8/2) is collapsed into it: ONE model (acceptor 1801) with 11 reads
Exit code 1 = property violated, 0 = not violated.
"""
import os, sys, subprocess, shutil, random, re
import pysam

HERE = os.path.dirname(os.path.abspath(__file__))
ISOQUANT = os.path.join(HERE, "isoquant.py")
PY = "/venv/bin/python"
SCRATCH = "/tmp/hunt3scratch_C11/demo6"
COMP = str.maketrans("ACGT", "TGCA")


def revcomp(s):
    return s.translate(COMP)[::-1]


def put(seq, pos1, s):
    return seq[:pos1 - 1] + s + seq[pos1 - 1 + len(s):]


def build():
    rng = random.Random(5)
    genome = "".join(rng.choice("ACGT") for _ in range(4000))
    known = [(1001, 1200), (1501, 1700), (2001, 2300)]
    for i in range(len(known) - 1):
        genome = put(genome, known[i][1] + 1, "GT")
        genome = put(genome, known[i + 1][0] - 2, "AG")
    # novel exon with three acceptor sites ...AG|....AG|..AG| and one donor site
    genome = put(genome, 1795, "CCCCAGCCAGCCCAG")     # AG ends at 1800, 1804, 1807
    genome = put(genome, 1851, "GT")
    genome = put(genome, 2297, "CGCG")
    genome = put(genome, 2301, "CGC")
    reads = []
    n = 0
    for acc, cnt in ((1801, 6), (1805, 2), (1808, 3)):
        for i in range(cnt):
            n += 1
            reads.append(("read%02d_acc%d" % (n, acc), [(1001, 1200), (1501, 1700), (acc, 1850), (2001, 2300)]))
    return genome, known, reads


def write_inputs(d, genome, known, reads, mirrored):
    os.makedirs(d, exist_ok=True)
    L = len(genome)
    strand = '+'
    if mirrored:
        genome = revcomp(genome)
        known = sorted((L + 1 - e, L + 1 - s) for s, e in known)
        reads = [(n, sorted((L + 1 - e, L + 1 - s) for s, e in ex)) for n, ex in reads]
        strand = '-'
    with open(os.path.join(d, "genome.fa"), "w") as f:
        f.write(">chr1\n")
        for i in range(0, L, 60):
            f.write(genome[i:i + 60] + "\n")
    with open(os.path.join(d, "annot.gtf"), "w") as f:
        f.write('chr1\tt\tgene\t%d\t%d\t.\t%s\t.\tgene_id "G1";\n' % (known[0][0], known[-1][1], strand))
        f.write('chr1\tt\ttranscript\t%d\t%d\t.\t%s\t.\tgene_id "G1"; transcript_id "T1";\n' % (known[0][0], known[-1][1], strand))
        for s, e in known:
            f.write('chr1\tt\texon\t%d\t%d\t.\t%s\t.\tgene_id "G1"; transcript_id "T1";\n' % (s, e, strand))
    header = {'HD': {'VN': '1.6', 'SO': 'coordinate'}, 'SQ': [{'SN': 'chr1', 'LN': L}]}
    bam = os.path.join(d, "reads.bam")
    with pysam.AlignmentFile(bam, "wb", header=header) as out:
        for name, ex in sorted(reads, key=lambda r: (r[1][0][0], r[0])):
            body = "".join(genome[s - 1:e] for s, e in ex)
            cigar = []
            for i, (s, e) in enumerate(ex):
                if i:
                    cigar.append((3, s - ex[i - 1][1] - 1))
                cigar.append((0, e - s + 1))
            a = pysam.AlignedSegment(out.header)
            a.query_name = name
            if not mirrored:
                a.query_sequence = body + "A" * 30
                a.cigartuples = cigar + [(4, 30)]
                a.flag = 0
            else:
                a.query_sequence = "T" * 30 + body
                a.cigartuples = [(4, 30)] + cigar
                a.flag = 16
            a.reference_id = 0
            a.reference_start = ex[0][0] - 1
            a.mapping_quality = 60
            a.query_qualities = pysam.qualitystring_to_array("I" * len(a.query_sequence))
            out.write(a)
    pysam.index(bam)


def run(d):
    env = dict(os.environ)
    env["HOME"] = os.path.join(d, "home")
    os.makedirs(env["HOME"], exist_ok=True)
    out = os.path.join(d, "out")
    cmd = [PY, ISOQUANT, "--reference", os.path.join(d, "genome.fa"), "--genedb", os.path.join(d, "annot.gtf"),
           "--complete_genedb", "--bam", os.path.join(d, "reads.bam"), "--data_type", "nanopore", "-o", out,
           "--threads", "1", "--no_gzip"]
    p = subprocess.run(cmd, stdout=subprocess.PIPE, stderr=subprocess.STDOUT, env=env, text=True)
    if p.returncode != 0:
        print(p.stdout[-2000:])
        raise SystemExit("isoquant failed")
    return os.path.join(out, "OUT")


def models(outdir, L, mirrored):
    """model structure (in forward coordinates) -> (count, sorted reads)"""
    tr = {}
    for line in open(os.path.join(outdir, "OUT.transcript_models.gtf")):
        if line.startswith("#"):
            continue
        f = line.rstrip("\n").split("\t")
        if f[2] != "exon":
            continue
        tid = re.search('transcript_id "([^"]+)"', f[8]).group(1)
        s, e = int(f[3]), int(f[4])
        if mirrored:
            s, e = L + 1 - e, L + 1 - s
        tr.setdefault(tid, []).append((s, e))
    counts = {}
    for line in open(os.path.join(outdir, "OUT.transcript_model_counts.tsv")):
        if not line.startswith("#"):
            a, b = line.split("\t")[:2]
            counts[a] = b.strip()
    rd = {}
    for line in open(os.path.join(outdir, "OUT.transcript_model_reads.tsv")):
        if not line.startswith("#"):
            a, b = line.rstrip("\n").split("\t")[:2]
            rd.setdefault(b, []).append(a)
    return {tuple(sorted(ex)): (counts.get(t), sorted(rd.get(t, []))) for t, ex in tr.items()}


def main():
    if os.path.exists(SCRATCH):
        shutil.rmtree(SCRATCH)
    genome, known, reads = build()
    L = len(genome)
    res = {}
    for name, mirrored in (("forward", False), ("mirrored", True)):
        d = os.path.join(SCRATCH, name)
        write_inputs(d, genome, known, reads, mirrored)
        res[name] = models(run(d), L, mirrored)
    bad = False
    for k in sorted(set(res["forward"]) | set(res["mirrored"])):
        a, b = res["forward"].get(k), res["mirrored"].get(k)
        flag = "" if a == b else "   <-- differs"
        if a != b:
            bad = True
        print("model %s" % (list(k),))
        print("    forward : %s" % (a,))
        print("    mirrored: %s%s" % (b, flag))
    shutil.rmtree(SCRATCH, ignore_errors=True)
    if bad:
        print("VIOLATION: noise-free reads, the transcript models / their counts / their reads are not mirrored")
        return 1
    print("ok: models, counts and read lists are mirrored")
    return 0


if __name__ == "__main__":
    sys.exit(main())
