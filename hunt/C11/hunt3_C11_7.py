#!/venv/bin/python
"""
C11 (reflection), finding 7: the attribute exon_number of the exons of ANNOTATED transcripts in
OUT.transcript_models.gtf (and OUT.extended_annotation.gtf) is not preserved by the reflection when the annotation
has CDS (start_codon, stop_codon, UTR) records, as every real annotation has.
GFFPrinter.dump (src/transcript_printer.py:133-149) sorts exons and the other features of a transcript together as
tuples (start, end, type) - descending for '-' - and numbers ALL of them consecutively.  Ascending (start, end) on one
strand and descending (start, end) on the other are not mirror images of each other for nested features, so an exon
gets a different number than its mirror image (and the numbers are not exon numbers in the first place:
the 2nd exon of a 3-exon transcript is printed with exon_number "4" or "3").

Input: gene G1 with one 3-exon transcript T1 with a CDS, gene G2 with one single-exon transcript T2 whose CDS lies
strictly inside the exon; noise-free full-length reads of both.
Exit code 1 = property violated, 0 = not violated.
"""
import os, sys, subprocess, shutil, random, re
import pysam

HERE = os.path.dirname(os.path.abspath(__file__))
ISOQUANT = os.path.join(HERE, "isoquant.py")
PY = "/venv/bin/python"
SCRATCH = "/tmp/hunt3scratch_C11/demo7"
COMP = str.maketrans("ACGT", "TGCA")


def revcomp(s):
    return s.translate(COMP)[::-1]


def put(seq, pos1, s):
    return seq[:pos1 - 1] + s + seq[pos1 - 1 + len(s):]


T1 = [(1001, 1200), (1501, 1700), (2001, 2300)]
T1_CDS = [(1101, 1200), (1501, 1700), (2001, 2100)]
T2 = [(3001, 3600)]
T2_CDS = [(3101, 3400)]


def build():
    rng = random.Random(3)
    genome = "".join(rng.choice("ACGT") for _ in range(5000))
    for i in range(len(T1) - 1):
        genome = put(genome, T1[i][1] + 1, "GT")
        genome = put(genome, T1[i + 1][0] - 2, "AG")
    for e in (2300, 3600):
        genome = put(genome, e - 3, "CGCG")
        genome = put(genome, e + 1, "CGC")
    reads = [("t1_read%d" % i, list(T1)) for i in range(1, 5)] + [("t2_read%d" % i, list(T2)) for i in range(1, 5)]
    return genome, None, reads


def write_inputs(d, genome, known, reads, mirrored):
    os.makedirs(d, exist_ok=True)
    L = len(genome)
    strand = '+'
    def m(iv):
        return sorted((L + 1 - e, L + 1 - s) for s, e in iv) if mirrored else list(iv)
    if mirrored:
        genome = revcomp(genome)
        reads = [(n, m(ex)) for n, ex in reads]
        strand = '-'
    with open(os.path.join(d, "genome.fa"), "w") as f:
        f.write(">chr1\n")
        for i in range(0, L, 60):
            f.write(genome[i:i + 60] + "\n")
    recs = []
    for gid, tid, ex, cds in (("G1", "T1", m(T1), m(T1_CDS)), ("G2", "T2", m(T2), m(T2_CDS))):
        lines = ['chr1\tt\tgene\t%d\t%d\t.\t%s\t.\tgene_id "%s";\n' % (ex[0][0], ex[-1][1], strand, gid),
                 'chr1\tt\ttranscript\t%d\t%d\t.\t%s\t.\tgene_id "%s"; transcript_id "%s";\n' % (ex[0][0], ex[-1][1], strand, gid, tid)]
        for s, e in ex:
            lines.append('chr1\tt\texon\t%d\t%d\t.\t%s\t.\tgene_id "%s"; transcript_id "%s";\n' % (s, e, strand, gid, tid))
        for s, e in cds:
            lines.append('chr1\tt\tCDS\t%d\t%d\t.\t%s\t0\tgene_id "%s"; transcript_id "%s";\n' % (s, e, strand, gid, tid))
        recs.append((ex[0][0], lines))
    with open(os.path.join(d, "annot.gtf"), "w") as f:
        for _, lines in sorted(recs):
            f.writelines(lines)
    header = {'HD': {'VN': '1.6', 'SO': 'coordinate'}, 'SQ': [{'SN': 'chr1', 'LN': L}]}
    bam = os.path.join(d, "reads.bam")
    with pysam.AlignmentFile(bam, "wb", header=header) as out:
        for name, ex in sorted(reads, key=lambda r: (r[1][0][0], r[0])):
            body = "".join(genome[s - 1:e] for s, e in ex)
            cigar = []
            for i, (s, e) in enumerate(ex):
                if i:
                    cigar.append((3, s - ex[i - 1][1] - 1))
                cigar.append((0, e - s + 1))
            a = pysam.AlignedSegment(out.header)
            a.query_name = name
            if not mirrored:
                a.query_sequence = body + "A" * 30
                a.cigartuples = cigar + [(4, 30)]
                a.flag = 0
            else:
                a.query_sequence = "T" * 30 + body
                a.cigartuples = [(4, 30)] + cigar
                a.flag = 16
            a.reference_id = 0
            a.reference_start = ex[0][0] - 1
            a.mapping_quality = 60
            a.query_qualities = pysam.qualitystring_to_array("I" * len(a.query_sequence))
            out.write(a)
    pysam.index(bam)


def run(d):
    env = dict(os.environ)
    env["HOME"] = os.path.join(d, "home")
    os.makedirs(env["HOME"], exist_ok=True)
    out = os.path.join(d, "out")
    cmd = [PY, ISOQUANT, "--reference", os.path.join(d, "genome.fa"), "--genedb", os.path.join(d, "annot.gtf"),
           "--complete_genedb", "--bam", os.path.join(d, "reads.bam"), "--data_type", "nanopore", "-o", out,
           "--threads", "1", "--no_gzip"]
    p = subprocess.run(cmd, stdout=subprocess.PIPE, stderr=subprocess.STDOUT, env=env, text=True)
    if p.returncode != 0:
        print(p.stdout[-2000:])
        raise SystemExit("isoquant failed")
    return os.path.join(out, "OUT")


def models(outdir, L, mirrored):
    """transcript -> exon_number of its exons in transcript order (5' -> 3')"""
    res = {}
    for line in open(os.path.join(outdir, "OUT.transcript_models.gtf")):
        f = line.rstrip("\n").split("\t")
        if line.startswith("#") or f[2] != "exon":
            continue
        tid = re.search('transcript_id "([^"]+)"', f[8]).group(1)
        num = re.search('exon_number "([^"]+)"', f[8]).group(1)
        s = int(f[3])
        res.setdefault(tid, []).append((s if f[6] == '+' else -s, num))
    return {"exon_number of the exons of %s, 5' to 3'" % t: [n for _, n in sorted(v)] for t, v in res.items()}


def main():
    if os.path.exists(SCRATCH):
        shutil.rmtree(SCRATCH)
    genome, known, reads = build()
    L = len(genome)
    res = {}
    for name, mirrored in (("forward", False), ("mirrored", True)):
        d = os.path.join(SCRATCH, name)
        write_inputs(d, genome, known, reads, mirrored)
        res[name] = models(run(d), L, mirrored)
    bad = False
    for k in sorted(set(res["forward"]) | set(res["mirrored"])):
        a, b = res["forward"].get(k), res["mirrored"].get(k)
        flag = "" if a == b else "   <-- differs"
        if a != b:
            bad = True
        print("%s" % k)
        print("    forward : %s" % (a,))
        print("    mirrored: %s%s" % (b, flag))
    shutil.rmtree(SCRATCH, ignore_errors=True)
    if bad:
        print("VIOLATION: the exon numbers of annotated transcripts change under reflection")
        return 1
    print("ok: exon numbers agree")
    return 0


if __name__ == "__main__":
    sys.exit(main())
