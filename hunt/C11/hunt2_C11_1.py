"""C11 / translation: reads that start at the first two bases of a chromosome.

The polyT position of a read is (first aligned base - 2); PolyAFinder.find_polyt_head clamps it with max(1, .) so that
it cannot collide with the "not found" value -1.  For a read aligned from base 1 or 2 the clamp is active, k bases
inserted in front of the chromosome switch it off, and the distance to the annotated transcript end changes by 1-2 bp.
Here this moves three reads from 50 bp (correct polyA site, unique) to 51 bp (alternative polyA site,
inconsistent_non_intronic): the transcript count drops from 5 to 2 although only 100 bases were inserted upstream.
"""

import os, random, re, shutil, subprocess, sys
import pysam

REPO = os.path.dirname(os.path.abspath(__file__))
SCRATCH = "/tmp/hunt2scratch_C11"
COMP = {"A": "T", "C": "G", "G": "C", "T": "A", "N": "N"}


def revcomp(s):
    return "".join(COMP[c] for c in reversed(s))


class Scenario:
    """tiny synthetic data set; all coordinates 1-based inclusive"""

    def __init__(self, length, seed=1, chrom="chr1"):
        rnd = random.Random(seed)
        self.chrom = chrom
        self.seq = [rnd.choice("ACGT") for _ in range(length)]
        self.genes = []   # (gene_id, strand, [(transcript_id, exons)])
        self.reads = []   # dict(name, blocks, rev, head, tail, secondary)

    def plant(self, exons, strand):
        """canonical splice sites for all introns of an exon chain"""
        for i in range(len(exons) - 1):
            s, e = exons[i][1] + 1, exons[i + 1][0] - 1
            self.seq[s - 1:s + 1] = list("GT" if strand == '+' else "CT")
            self.seq[e - 2:e] = list("AG" if strand == '+' else "AC")

    def add_gene(self, gene_id, strand, transcripts):
        self.genes.append((gene_id, strand, transcripts))
        for _, exons in transcripts:
            self.plant(exons, strand)

    def add_read(self, name, blocks, rev=False, head="", tail="", secondary=False):
        self.reads.append(dict(name=name, blocks=list(blocks), rev=rev, head=head, tail=tail, secondary=secondary))

    def translated(self, k):
        t = Scenario(1, chrom=self.chrom)
        rnd = random.Random(4711)
        t.seq = [rnd.choice("ACGT") for _ in range(k)] + list(self.seq)
        t.genes = [(g, st, [(tid, [(a + k, b + k) for a, b in ex]) for tid, ex in trs]) for g, st, trs in self.genes]
        t.reads = [dict(r, blocks=[(a + k, b + k) for a, b in r["blocks"]]) for r in self.reads]
        return t

    def reflected(self):
        L = len(self.seq)
        flip = {'+': '-', '-': '+'}
        mir = lambda ex: [(L + 1 - b, L + 1 - a) for a, b in reversed(ex)]
        t = Scenario(1, chrom=self.chrom)
        t.seq = list(revcomp("".join(self.seq)))
        t.genes = [(g, flip[st], [(tid, mir(ex)) for tid, ex in trs]) for g, st, trs in self.genes]
        t.reads = [dict(r, blocks=mir(r["blocks"]), rev=not r["rev"], head=revcomp(r["tail"]), tail=revcomp(r["head"]))
                   for r in self.reads]
        return t

    def write(self, d):
        os.makedirs(d, exist_ok=True)
        fa, gtf, bam = os.path.join(d, "genome.fa"), os.path.join(d, "annot.gtf"), os.path.join(d, "reads.bam")
        seq = "".join(self.seq)
        with open(fa, "w") as f:
            f.write(">%s\n" % self.chrom)
            for i in range(0, len(seq), 60):
                f.write(seq[i:i + 60] + "\n")
        with open(gtf, "w") as f:
            for g, st, trs in self.genes:
                lo, hi = min(ex[0][0] for _, ex in trs), max(ex[-1][1] for _, ex in trs)
                f.write('%s\tsrc\tgene\t%d\t%d\t.\t%s\t.\tgene_id "%s";\n' % (self.chrom, lo, hi, st, g))
                for tid, ex in trs:
                    f.write('%s\tsrc\ttranscript\t%d\t%d\t.\t%s\t.\tgene_id "%s"; transcript_id "%s";\n' %
                            (self.chrom, ex[0][0], ex[-1][1], st, g, tid))
                    for a, b in ex:
                        f.write('%s\tsrc\texon\t%d\t%d\t.\t%s\t.\tgene_id "%s"; transcript_id "%s";\n' %
                                (self.chrom, a, b, st, g, tid))
        header = {"HD": {"VN": "1.0", "SO": "coordinate"}, "SQ": [{"SN": self.chrom, "LN": len(seq)}]}
        recs = []
        for r in self.reads:
            a = pysam.AlignedSegment()
            a.query_name = r["name"]
            cigar, rseq = [], r["head"]
            if r["head"]:
                cigar.append((4, len(r["head"])))
            for i, (s, e) in enumerate(r["blocks"]):
                if i:
                    cigar.append((3, s - r["blocks"][i - 1][1] - 1))
                cigar.append((0, e - s + 1))
                rseq += seq[s - 1:e]
            if r["tail"]:
                cigar.append((4, len(r["tail"])))
            rseq += r["tail"]
            a.flag = (16 if r["rev"] else 0) | (256 if r["secondary"] else 0)
            a.reference_id = 0
            a.reference_start = r["blocks"][0][0] - 1
            a.mapping_quality = 60
            a.cigar = cigar
            a.query_sequence = rseq
            a.query_qualities = pysam.qualitystring_to_array("I" * len(rseq))
            recs.append(a)
        recs.sort(key=lambda x: x.reference_start)
        with pysam.AlignmentFile(bam, "wb", header=header) as out:
            for a in recs:
                out.write(a)
        pysam.index(bam)
        return fa, gtf, bam


def run_isoquant(d, scenario, extra=()):
    fa, gtf, bam = scenario.write(d)
    home = os.path.join(d, "home")
    os.makedirs(home, exist_ok=True)
    out = os.path.join(d, "out")
    cmd = [sys.executable, os.path.join(REPO, "isoquant.py"), "--reference", fa, "--genedb", gtf, "--complete_genedb",
           "--bam", bam, "--data_type", "nanopore", "-o", out, "--threads", "1", "--no_gzip"] + list(extra)
    p = subprocess.run(cmd, env=dict(os.environ, HOME=home), stdout=subprocess.PIPE, stderr=subprocess.STDOUT, text=True)
    if p.returncode != 0:
        print(p.stdout[-3000:])
        raise RuntimeError("IsoQuant failed")
    return os.path.join(out, "OUT")


def read_table(path):
    rows = []
    for line in open(path):
        if not line.startswith("#"):
            rows.append(line.rstrip("\n").split("\t"))
    return rows


def models(outdir):
    """transcript models: sorted list of (strand, exons, number of reads)"""
    counts = {r[0]: float(r[1]) for r in read_table(os.path.join(outdir, "OUT.transcript_model_counts.tsv"))
              if not r[0].startswith("__")}
    res = {}
    for f in read_table(os.path.join(outdir, "OUT.transcript_models.gtf")):
        tid = re.search(r'transcript_id "([^"]+)"', f[8])
        if f[2] == "transcript":
            res[tid.group(1)] = [f[6], []]
        elif f[2] == "exon":
            res[tid.group(1)][1].append((int(f[3]), int(f[4])))
    return sorted((st, tuple(sorted(ex)), counts.get(tid, 0.0)) for tid, (st, ex) in res.items())


def mirror_models(ms, L):
    flip = {'+': '-', '-': '+', '.': '.'}
    return sorted((flip[st], tuple(sorted((L + 1 - b, L + 1 - a) for a, b in ex)), c) for st, ex, c in ms)

K = 100
s = Scenario(6000, seed=11)
s.seq[0:6] = list("CGCGCG")                 # no T next to the polyT head of the reads
s.seq[50:56] = list("GCGCGC")
s.add_gene("G", "-", [("GT", [(51, 400), (700, 900)])])
for i in range(3):
    s.add_read("r%d" % i, [(2, 400), (700, 900)], rev=True, head="T" * 30)
for i in range(2):
    s.add_read("q%d" % i, [(51, 400), (700, 900)], rev=True, head="T" * 30)

work = os.path.join(SCRATCH, "demo1")
shutil.rmtree(work, ignore_errors=True)
res = []
for name, sc in (("base", s), ("shifted", s.translated(K))):
    out = run_isoquant(os.path.join(work, name), sc)
    types = {r[0]: r[5] for r in read_table(os.path.join(out, "OUT.read_assignments.tsv"))}
    events = {r[0]: r[6] for r in read_table(os.path.join(out, "OUT.read_assignments.tsv"))}
    count = [r[1] for r in read_table(os.path.join(out, "OUT.transcript_counts.tsv")) if r[0] == "GT"][0]
    res.append((types, count))
    print(name, "GT count", count, "r0:", types["r0"], events["r0"])
shutil.rmtree(work, ignore_errors=True)
if res[0] != res[1]:
    print("VIOLATION: inserting %d bases at the start of the chromosome changed assignment types/counts" % K)
    print("  base   :", res[0])
    print("  shifted:", res[1])
    sys.exit(1)
print("ok")
