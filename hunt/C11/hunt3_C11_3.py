#!/venv/bin/python
"""
C11 (reflection), finding 3 (--sqanti_output): the columns perc_A_downstream_TTS / seq_A_downstream_TTS of
OUT.novel_vs_known.SQANTI-like.tsv are computed from a slice of the reference window of the locus
(IOSupport.check_downstream_polya, src/assignment_io.py:584-592).  For a '+' model the slice
`reference_region[read_end:read_end + 20]` is merely cut at the end of the window; for a '-' model the slice
`reference_region[read_start - 20:read_start]` gets a NEGATIVE start index when the model begins less than 20 bp
behind the start of the window, Python counts it from the end of the string and the result is the empty string.

Input: one gene with one annotated isoform whose 3' end lies 10 bp beyond the end used by the reads; the reads are
noise-free copies of a novel isoform (one extra exon) with genuine tails.  The 10 bp between the end of the novel
model and the end of the annotated gene are T-rich on the strand of the gene (they read TTCTTGTTAT on '-').
  gene on '-' (forward genome) : perc_A_downstream_TTS = 0.00, seq = '' (negative slice index)
  gene on '+' (mirrored genome): perc_A_downstream_TTS = 0.35, seq = the 10 bases
The values are not mirror images of each other (nor is the '-' value right).
Exit code 1 = property violated, 0 = not violated.
"""
import os, sys, subprocess, shutil, random, re
import pysam

HERE = os.path.dirname(os.path.abspath(__file__))
ISOQUANT = os.path.join(HERE, "isoquant.py")
PY = "/venv/bin/python"
SCRATCH = "/tmp/hunt3scratch_C11/demo3"
COMP = str.maketrans("ACGT", "TGCA")


def revcomp(s):
    return s.translate(COMP)[::-1]


def put(seq, pos1, s):
    return seq[:pos1 - 1] + s + seq[pos1 - 1 + len(s):]


def build():
    """the FORWARD input has the gene on '-': it is described here on '+' and mirrored before the forward run"""
    rng = random.Random(5)
    genome = "".join(rng.choice("ACGT") for _ in range(4000))
    known = [(1001, 1200), (1501, 1700), (2001, 2310)]
    novel = [(1001, 1200), (1501, 1700), (1801, 1850), (2001, 2300)]
    for ex in (known, novel):
        for i in range(len(ex) - 1):
            genome = put(genome, ex[i][1] + 1, "GT")
            genome = put(genome, ex[i + 1][0] - 2, "AG")
    genome = put(genome, 2297, "CGCG")
    genome = put(genome, 2301, "ATAACAAGAA" + "CGCGCGCGCGCG")
    reads = [("read%02d" % i, list(novel)) for i in range(1, 6)]
    return genome, known, reads


def write_inputs(d, genome, known, reads, mirrored):
    os.makedirs(d, exist_ok=True)
    L = len(genome)
    strand = '+'
    if mirrored:
        genome = revcomp(genome)
        known = sorted((L + 1 - e, L + 1 - s) for s, e in known)
        reads = [(n, sorted((L + 1 - e, L + 1 - s) for s, e in ex)) for n, ex in reads]
        strand = '-'
    with open(os.path.join(d, "genome.fa"), "w") as f:
        f.write(">chr1\n")
        for i in range(0, L, 60):
            f.write(genome[i:i + 60] + "\n")
    with open(os.path.join(d, "annot.gtf"), "w") as f:
        f.write('chr1\tt\tgene\t%d\t%d\t.\t%s\t.\tgene_id "G1";\n' % (known[0][0], known[-1][1], strand))
        f.write('chr1\tt\ttranscript\t%d\t%d\t.\t%s\t.\tgene_id "G1"; transcript_id "T1";\n' % (known[0][0], known[-1][1], strand))
        for s, e in known:
            f.write('chr1\tt\texon\t%d\t%d\t.\t%s\t.\tgene_id "G1"; transcript_id "T1";\n' % (s, e, strand))
    header = {'HD': {'VN': '1.6', 'SO': 'coordinate'}, 'SQ': [{'SN': 'chr1', 'LN': L}]}
    bam = os.path.join(d, "reads.bam")
    with pysam.AlignmentFile(bam, "wb", header=header) as out:
        for name, ex in sorted(reads, key=lambda r: (r[1][0][0], r[0])):
            body = "".join(genome[s - 1:e] for s, e in ex)
            cigar = []
            for i, (s, e) in enumerate(ex):
                if i:
                    cigar.append((3, s - ex[i - 1][1] - 1))
                cigar.append((0, e - s + 1))
            a = pysam.AlignedSegment(out.header)
            a.query_name = name
            if not mirrored:
                a.query_sequence = body + "A" * 30
                a.cigartuples = cigar + [(4, 30)]
                a.flag = 0
            else:
                a.query_sequence = "T" * 30 + body
                a.cigartuples = [(4, 30)] + cigar
                a.flag = 16
            a.reference_id = 0
            a.reference_start = ex[0][0] - 1
            a.mapping_quality = 60
            a.query_qualities = pysam.qualitystring_to_array("I" * len(a.query_sequence))
            out.write(a)
    pysam.index(bam)


def run(d):
    env = dict(os.environ)
    env["HOME"] = os.path.join(d, "home")
    os.makedirs(env["HOME"], exist_ok=True)
    out = os.path.join(d, "out")
    cmd = [PY, ISOQUANT, "--reference", os.path.join(d, "genome.fa"), "--genedb", os.path.join(d, "annot.gtf"),
           "--complete_genedb", "--bam", os.path.join(d, "reads.bam"), "--data_type", "nanopore", "-o", out,
           "--threads", "1", "--no_gzip", "--sqanti_output"]
    p = subprocess.run(cmd, stdout=subprocess.PIPE, stderr=subprocess.STDOUT, env=env, text=True)
    if p.returncode != 0:
        print(p.stdout[-2000:])
        raise SystemExit("isoquant failed")
    return os.path.join(out, "OUT")


def models(outdir, L, mirrored):
    res = {}
    for line in open(os.path.join(outdir, "OUT.novel_vs_known.SQANTI-like.tsv")):
        if line.startswith("#"):
            continue
        f = line.rstrip("\n").split("\t")
        seq = f[38]
        res["novel model"] = (f[5], f[7], "perc_A_downstream_TTS=" + f[37], "seq_A_downstream_TTS(as on the transcript strand)=" +
                              (seq if f[2] == '+' else revcomp(seq)))
    return res


def main():
    if os.path.exists(SCRATCH):
        shutil.rmtree(SCRATCH)
    genome, known, reads = build()
    L = len(genome)
    res = {}
    for name, mirrored in (("forward", True), ("mirrored", False)):
        d = os.path.join(SCRATCH, name)
        write_inputs(d, genome, known, reads, mirrored)
        res[name] = models(run(d), L, mirrored)
    bad = False
    for k in sorted(set(res["forward"]) | set(res["mirrored"])):
        a, b = res["forward"].get(k), res["mirrored"].get(k)
        flag = "" if a == b else "   <-- differs"
        if a != b:
            bad = True
        print("%s" % k)
        print("    forward : %s" % (a,))
        print("    mirrored: %s%s" % (b, flag))
    shutil.rmtree(SCRATCH, ignore_errors=True)
    if bad:
        print("VIOLATION: the SQANTI-like table of the two orientations differs in the downstream-A columns")
        return 1
    print("ok: the SQANTI-like rows agree")
    return 0


if __name__ == "__main__":
    sys.exit(main())
