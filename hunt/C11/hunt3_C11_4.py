#!/venv/bin/python
"""
C11 (reflection), finding 4: a read whose introns lie on BOTH sides of an isoform that shares no intron with it
(e.g. an intron-less gene sitting inside the middle exon of the read) gets all its introns reported on ONE side.
JunctionComparator.add_extra_out_exon_events (src/junction_comparator.py:431-440): when no read intron matched,
`if read_introns[0][0] < isoform_start: extra_right = False else: extra_left = False` decides the side for ALL introns
by the position of the FIRST one, and the walk `while ... read_intron_read_profile[read_pos] == 0` then runs over
the whole read.

Input: gene G1 ('+', one exon 2001-2400); reads 1001-1200 / 1901-2500 / 3001-3200 (noise-free, polyA tail).
  forward genome : both introns are reported as extra_intron_5 - also 2501-3000, which lies 3' of the gene
  mirrored genome: both introns are reported as extra_intron_3 - also the image of 1201-1900, which lies 5' of it
The mirrored run should say extra_intron_5 for the image of 1201-1900 and extra_intron_3 for the image of 2501-3000
(5'/3' are relative to the transcript and do not change under reflection).
Exit code 1 = property violated, 0 = not violated.
"""
import os, sys, subprocess, shutil, random, re
import pysam

HERE = os.path.dirname(os.path.abspath(__file__))
ISOQUANT = os.path.join(HERE, "isoquant.py")
PY = "/venv/bin/python"
SCRATCH = "/tmp/hunt3scratch_C11/demo4"
COMP = str.maketrans("ACGT", "TGCA")


def revcomp(s):
    return s.translate(COMP)[::-1]


def put(seq, pos1, s):
    return seq[:pos1 - 1] + s + seq[pos1 - 1 + len(s):]


def build():
    rng = random.Random(3)
    genome = "".join(rng.choice("ACGT") for _ in range(6000))
    known = [(2001, 2400)]
    rd = [(1001, 1200), (1901, 2500), (3001, 3200)]
    for i in range(len(rd) - 1):
        genome = put(genome, rd[i][1] + 1, "GT")
        genome = put(genome, rd[i + 1][0] - 2, "AG")
    genome = put(genome, 3197, "CGCG")
    genome = put(genome, 3201, "CGC")
    reads = [("read%02d" % i, list(rd)) for i in range(1, 5)]
    return genome, known, reads


def write_inputs(d, genome, known, reads, mirrored):
    os.makedirs(d, exist_ok=True)
    L = len(genome)
    strand = '+'
    if mirrored:
        genome = revcomp(genome)
        known = sorted((L + 1 - e, L + 1 - s) for s, e in known)
        reads = [(n, sorted((L + 1 - e, L + 1 - s) for s, e in ex)) for n, ex in reads]
        strand = '-'
    with open(os.path.join(d, "genome.fa"), "w") as f:
        f.write(">chr1\n")
        for i in range(0, L, 60):
            f.write(genome[i:i + 60] + "\n")
    with open(os.path.join(d, "annot.gtf"), "w") as f:
        f.write('chr1\tt\tgene\t%d\t%d\t.\t%s\t.\tgene_id "G1";\n' % (known[0][0], known[-1][1], strand))
        f.write('chr1\tt\ttranscript\t%d\t%d\t.\t%s\t.\tgene_id "G1"; transcript_id "T1";\n' % (known[0][0], known[-1][1], strand))
        for s, e in known:
            f.write('chr1\tt\texon\t%d\t%d\t.\t%s\t.\tgene_id "G1"; transcript_id "T1";\n' % (s, e, strand))
    header = {'HD': {'VN': '1.6', 'SO': 'coordinate'}, 'SQ': [{'SN': 'chr1', 'LN': L}]}
    bam = os.path.join(d, "reads.bam")
    with pysam.AlignmentFile(bam, "wb", header=header) as out:
        for name, ex in sorted(reads, key=lambda r: (r[1][0][0], r[0])):
            body = "".join(genome[s - 1:e] for s, e in ex)
            cigar = []
            for i, (s, e) in enumerate(ex):
                if i:
                    cigar.append((3, s - ex[i - 1][1] - 1))
                cigar.append((0, e - s + 1))
            a = pysam.AlignedSegment(out.header)
            a.query_name = name
            if not mirrored:
                a.query_sequence = body + "A" * 30
                a.cigartuples = cigar + [(4, 30)]
                a.flag = 0
            else:
                a.query_sequence = "T" * 30 + body
                a.cigartuples = [(4, 30)] + cigar
                a.flag = 16
            a.reference_id = 0
            a.reference_start = ex[0][0] - 1
            a.mapping_quality = 60
            a.query_qualities = pysam.qualitystring_to_array("I" * len(a.query_sequence))
            out.write(a)
    pysam.index(bam)


def run(d):
    env = dict(os.environ)
    env["HOME"] = os.path.join(d, "home")
    os.makedirs(env["HOME"], exist_ok=True)
    out = os.path.join(d, "out")
    cmd = [PY, ISOQUANT, "--reference", os.path.join(d, "genome.fa"), "--genedb", os.path.join(d, "annot.gtf"),
           "--complete_genedb", "--bam", os.path.join(d, "reads.bam"), "--data_type", "nanopore", "-o", out,
           "--threads", "1", "--no_gzip"]
    p = subprocess.run(cmd, stdout=subprocess.PIPE, stderr=subprocess.STDOUT, env=env, text=True)
    if p.returncode != 0:
        print(p.stdout[-2000:])
        raise SystemExit("isoquant failed")
    return os.path.join(out, "OUT")


def models(outdir, L, mirrored):
    """read -> (assignment type, isoform, events with the intron coordinates given in forward coordinates)"""
    res = {}
    for line in open(os.path.join(outdir, "OUT.read_assignments.tsv")):
        if line.startswith("#"):
            continue
        f = line.rstrip("\n").split("\t")
        events = []
        for ev in re.findall(r"[a-z_0-9]+(?::[-0-9]+(?:,[0-9]+-[0-9]+)*)?", f[6]):
            name, _, info = ev.partition(":")
            m = re.match(r"^(\d+)-(\d+)$", info)
            if m and mirrored:
                info = "%d-%d" % (L + 1 - int(m.group(2)), L + 1 - int(m.group(1)))
            if name.startswith("extra_intron"):
                events.append(name + ":" + info)
        res[f[0]] = (f[5], f[3], tuple(sorted(events)))
    return res


def main():
    if os.path.exists(SCRATCH):
        shutil.rmtree(SCRATCH)
    genome, known, reads = build()
    L = len(genome)
    res = {}
    for name, mirrored in (("forward", False), ("mirrored", True)):
        d = os.path.join(SCRATCH, name)
        write_inputs(d, genome, known, reads, mirrored)
        res[name] = models(run(d), L, mirrored)
    bad = False
    for k in sorted(set(res["forward"]) | set(res["mirrored"])):
        a, b = res["forward"].get(k), res["mirrored"].get(k)
        flag = "" if a == b else "   <-- differs"
        if a != b:
            bad = True
        print("%s" % k)
        print("    forward : %s" % (a,))
        print("    mirrored: %s%s" % (b, flag))
    shutil.rmtree(SCRATCH, ignore_errors=True)
    if bad:
        print("VIOLATION: the 5'/3' labels of the flanking introns are not preserved by the reflection")
        return 1
    print("ok: the events agree")
    return 0


if __name__ == "__main__":
    sys.exit(main())
