#!/venv/bin/python
"""
C11 (reflection), finding 2: the representative of a cluster of polyA (polyT) positions is the position that was
seen FIRST among the equally supported ones (IntronGraph.cluster_polya_positions, src/intron_graph.py:
`max(position_dict.items(), key=lambda x: x[1])`; the same idiom in GraphBasedModelConstructor.cluster_monoexons).
The order is the order of the reads in the coordinate-sorted BAM, which is reversed by the reflection.

Input: one '+' gene, all reads are noise-free copies of one novel intron chain with genuine polyA tails.
3 molecules span 1001..2300, 3 molecules span 1011..2320 (two cleavage sites 20 bp apart, equal support,
no sequencing noise, no two reads of different groups share a start or an end).
  forward genome : the reads that end at 2300 come first in the BAM  -> the polyA vertex, and the 3' end of the
                   reported novel model, is 2300
  mirrored genome: the images of the reads that end at 2320 come first -> the 3' end of the model is the image of 2320
Exit code 1 = property violated, 0 = not violated.
"""
import os, sys, subprocess, shutil, random, re
import pysam

HERE = os.path.dirname(os.path.abspath(__file__))
ISOQUANT = os.path.join(HERE, "isoquant.py")
PY = "/venv/bin/python"
SCRATCH = "/tmp/hunt3scratch_C11/demo2"
COMP = str.maketrans("ACGT", "TGCA")


def revcomp(s):
    return s.translate(COMP)[::-1]


def put(seq, pos1, s):
    return seq[:pos1 - 1] + s + seq[pos1 - 1 + len(s):]


def build():
    rng = random.Random(5)
    genome = "".join(rng.choice("ACGT") for _ in range(4000))
    known = [(1001, 1200), (1501, 1700), (2001, 2300)]
    novel = [(1001, 1200), (1501, 1700), (1801, 1850), (2001, 2300)]
    for ex in (known, novel):
        for i in range(len(ex) - 1):
            genome = put(genome, ex[i][1] + 1, "GT")
            genome = put(genome, ex[i + 1][0] - 2, "AG")
    # nothing A-rich next to the two ends, so that the tail positions are exactly the read ends
    for e in (2300, 2320):
        genome = put(genome, e - 3, "CGCG")
        genome = put(genome, e + 1, "CGC")
    reads = []
    n = 0
    for start, end, cnt in ((1001, 2300, 3), (1011, 2320, 3)):
        for i in range(cnt):
            n += 1
            ex = [(start, 1200)] + novel[1:-1] + [(2001, end)]
            reads.append(("read%02d_%d_%d" % (n, start, end), ex))
    return genome, known, reads


def write_inputs(d, genome, known, reads, mirrored):
    os.makedirs(d, exist_ok=True)
    L = len(genome)
    strand = '+'
    if mirrored:
        genome = revcomp(genome)
        known = sorted((L + 1 - e, L + 1 - s) for s, e in known)
        reads = [(n, sorted((L + 1 - e, L + 1 - s) for s, e in ex)) for n, ex in reads]
        strand = '-'
    with open(os.path.join(d, "genome.fa"), "w") as f:
        f.write(">chr1\n")
        for i in range(0, L, 60):
            f.write(genome[i:i + 60] + "\n")
    with open(os.path.join(d, "annot.gtf"), "w") as f:
        f.write('chr1\tt\tgene\t%d\t%d\t.\t%s\t.\tgene_id "G1";\n' % (known[0][0], known[-1][1], strand))
        f.write('chr1\tt\ttranscript\t%d\t%d\t.\t%s\t.\tgene_id "G1"; transcript_id "T1";\n' % (known[0][0], known[-1][1], strand))
        for s, e in known:
            f.write('chr1\tt\texon\t%d\t%d\t.\t%s\t.\tgene_id "G1"; transcript_id "T1";\n' % (s, e, strand))
    header = {'HD': {'VN': '1.6', 'SO': 'coordinate'}, 'SQ': [{'SN': 'chr1', 'LN': L}]}
    bam = os.path.join(d, "reads.bam")
    with pysam.AlignmentFile(bam, "wb", header=header) as out:
        for name, ex in sorted(reads, key=lambda r: (r[1][0][0], r[0])):
            body = "".join(genome[s - 1:e] for s, e in ex)
            cigar = []
            for i, (s, e) in enumerate(ex):
                if i:
                    cigar.append((3, s - ex[i - 1][1] - 1))
                cigar.append((0, e - s + 1))
            a = pysam.AlignedSegment(out.header)
            a.query_name = name
            if not mirrored:
                a.query_sequence = body + "A" * 30
                a.cigartuples = cigar + [(4, 30)]
                a.flag = 0
            else:
                a.query_sequence = "T" * 30 + body
                a.cigartuples = [(4, 30)] + cigar
                a.flag = 16
            a.reference_id = 0
            a.reference_start = ex[0][0] - 1
            a.mapping_quality = 60
            a.query_qualities = pysam.qualitystring_to_array("I" * len(a.query_sequence))
            out.write(a)
    pysam.index(bam)


def run(d):
    env = dict(os.environ)
    env["HOME"] = os.path.join(d, "home")
    os.makedirs(env["HOME"], exist_ok=True)
    out = os.path.join(d, "out")
    cmd = [PY, ISOQUANT, "--reference", os.path.join(d, "genome.fa"), "--genedb", os.path.join(d, "annot.gtf"),
           "--complete_genedb", "--bam", os.path.join(d, "reads.bam"), "--data_type", "nanopore", "-o", out,
           "--threads", "1", "--no_gzip"]
    p = subprocess.run(cmd, stdout=subprocess.PIPE, stderr=subprocess.STDOUT, env=env, text=True)
    if p.returncode != 0:
        print(p.stdout[-2000:])
        raise SystemExit("isoquant failed")
    return os.path.join(out, "OUT")


def models(outdir, L, mirrored):
    """model structure (in forward coordinates) -> (count, sorted reads)"""
    tr = {}
    for line in open(os.path.join(outdir, "OUT.transcript_models.gtf")):
        if line.startswith("#"):
            continue
        f = line.rstrip("\n").split("\t")
        if f[2] != "exon":
            continue
        tid = re.search('transcript_id "([^"]+)"', f[8]).group(1)
        s, e = int(f[3]), int(f[4])
        if mirrored:
            s, e = L + 1 - e, L + 1 - s
        tr.setdefault(tid, []).append((s, e))
    counts = {}
    for line in open(os.path.join(outdir, "OUT.transcript_model_counts.tsv")):
        if not line.startswith("#"):
            a, b = line.split("\t")[:2]
            counts[a] = b.strip()
    rd = {}
    for line in open(os.path.join(outdir, "OUT.transcript_model_reads.tsv")):
        if not line.startswith("#"):
            a, b = line.rstrip("\n").split("\t")[:2]
            rd.setdefault(b, []).append(a)
    return {tuple(sorted(ex)): (counts.get(t), sorted(rd.get(t, []))) for t, ex in tr.items()}


def main():
    if os.path.exists(SCRATCH):
        shutil.rmtree(SCRATCH)
    genome, known, reads = build()
    L = len(genome)
    res = {}
    for name, mirrored in (("forward", False), ("mirrored", True)):
        d = os.path.join(SCRATCH, name)
        write_inputs(d, genome, known, reads, mirrored)
        res[name] = models(run(d), L, mirrored)
    bad = False
    for k in sorted(set(res["forward"]) | set(res["mirrored"])):
        a, b = res["forward"].get(k), res["mirrored"].get(k)
        flag = "" if a == b else "   <-- differs"
        if a != b:
            bad = True
        print("model %s" % (list(k),))
        print("    forward : %s" % (a,))
        print("    mirrored: %s%s" % (b, flag))
    shutil.rmtree(SCRATCH, ignore_errors=True)
    if bad:
        print("VIOLATION: noise-free reads, the transcript models / their counts / their reads are not mirrored")
        return 1
    print("ok: models, counts and read lists are mirrored")
    return 0


if __name__ == "__main__":
    sys.exit(main())
