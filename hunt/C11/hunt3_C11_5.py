#!/venv/bin/python
"""
C11 (reflection), finding 5 (--report_canonical all --sqanti_output): a transcript model without a strand ('.')
is compared with the annotation as if it had a polyA site at its RIGHT end
(GraphBasedModelConstructor.compare_models_with_known, src/graph_based_model_construction.py:172-175 and 200-203:
`if model.strand == "-": PolyAInfo(-1, start, -1, -1) else: PolyAInfo(end, -1, -1, -1)`), although nothing is known
about its 3' end.  After the reflection the same end is the LEFT end of the model and carries no such mark.
(IOSupport.check_sites_are_canonical / check_downstream_polya in src/assignment_io.py treat '.' as '-' instead.)

Input: gene G1 ('+') with T1 = 4 exons (ends at 2900) and T2 = its first 3 exons, the third one ending at 2250.
Reads without tails (noise-free) use the first three exons with two alternative, non-canonical acceptor sites and
end at 2250 -> a novel model whose strand cannot be derived ('.'), reported because of --report_canonical all.
  forward genome : the invented polyA site at 2250 contradicts T1 (alternative_polya_site) and confirms T2:
                   similar_reference_id "T2", the attribute `alternatives` contains correct_polya_site_right:2250
  mirrored genome: the invented site sits at the other end, the model ties between T1 and T2:
                   similar_reference_id "T1", no polyA event
Exit code 1 = property violated, 0 = not violated.
"""
import os, sys, subprocess, shutil, random, re
import pysam

HERE = os.path.dirname(os.path.abspath(__file__))
ISOQUANT = os.path.join(HERE, "isoquant.py")
PY = "/venv/bin/python"
SCRATCH = "/tmp/hunt3scratch_C11/demo5"
COMP = str.maketrans("ACGT", "TGCA")


def revcomp(s):
    return s.translate(COMP)[::-1]


def put(seq, pos1, s):
    return seq[:pos1 - 1] + s + seq[pos1 - 1 + len(s):]


def build():
    rng = random.Random(11)
    genome = "".join(rng.choice("ACGT") for _ in range(5000))
    t1 = [(1001, 1200), (1501, 1700), (2001, 2300), (2601, 2900)]
    t2 = [(1001, 1200), (1501, 1700), (2001, 2250)]
    for i in range(len(t1) - 1):
        genome = put(genome, t1[i][1] + 1, "GT")
        genome = put(genome, t1[i + 1][0] - 2, "AG")
    novel = [(1051, 1200), (1521, 1700), (2021, 2250)]
    # the alternative acceptor sites are not canonical on either strand
    genome = put(genome, 1519, "CC")
    genome = put(genome, 2019, "CC")
    reads = [("read%02d" % i, list(novel)) for i in range(1, 5)]
    return genome, [t1, t2], reads


def write_inputs(d, genome, known, reads, mirrored):
    os.makedirs(d, exist_ok=True)
    L = len(genome)
    strand = '+'
    if mirrored:
        genome = revcomp(genome)
        known = [sorted((L + 1 - e, L + 1 - s) for s, e in t) for t in known]
        reads = [(n, sorted((L + 1 - e, L + 1 - s) for s, e in ex)) for n, ex in reads]
        strand = '-'
    with open(os.path.join(d, "genome.fa"), "w") as f:
        f.write(">chr1\n")
        for i in range(0, L, 60):
            f.write(genome[i:i + 60] + "\n")
    with open(os.path.join(d, "annot.gtf"), "w") as f:
        gs = min(t[0][0] for t in known)
        ge = max(t[-1][1] for t in known)
        f.write('chr1\tt\tgene\t%d\t%d\t.\t%s\t.\tgene_id "G1";\n' % (gs, ge, strand))
        for k, t in enumerate(known):
            f.write('chr1\tt\ttranscript\t%d\t%d\t.\t%s\t.\tgene_id "G1"; transcript_id "T%d";\n' % (t[0][0], t[-1][1], strand, k + 1))
            for s, e in t:
                f.write('chr1\tt\texon\t%d\t%d\t.\t%s\t.\tgene_id "G1"; transcript_id "T%d";\n' % (s, e, strand, k + 1))
    header = {'HD': {'VN': '1.6', 'SO': 'coordinate'}, 'SQ': [{'SN': 'chr1', 'LN': L}]}
    bam = os.path.join(d, "reads.bam")
    with pysam.AlignmentFile(bam, "wb", header=header) as out:
        for name, ex in sorted(reads, key=lambda r: (r[1][0][0], r[0])):
            body = "".join(genome[s - 1:e] for s, e in ex)
            cigar = []
            for i, (s, e) in enumerate(ex):
                if i:
                    cigar.append((3, s - ex[i - 1][1] - 1))
                cigar.append((0, e - s + 1))
            a = pysam.AlignedSegment(out.header)
            a.query_name = name
            a.query_sequence = body
            a.cigartuples = cigar
            a.flag = 16 if mirrored else 0
            a.reference_id = 0
            a.reference_start = ex[0][0] - 1
            a.mapping_quality = 60
            a.query_qualities = pysam.qualitystring_to_array("I" * len(a.query_sequence))
            out.write(a)
    pysam.index(bam)


def run(d):
    env = dict(os.environ)
    env["HOME"] = os.path.join(d, "home")
    os.makedirs(env["HOME"], exist_ok=True)
    out = os.path.join(d, "out")
    cmd = [PY, ISOQUANT, "--reference", os.path.join(d, "genome.fa"), "--genedb", os.path.join(d, "annot.gtf"),
           "--complete_genedb", "--bam", os.path.join(d, "reads.bam"), "--data_type", "nanopore", "-o", out,
           "--threads", "1", "--no_gzip", "--sqanti_output", "--report_canonical", "all"]
    p = subprocess.run(cmd, stdout=subprocess.PIPE, stderr=subprocess.STDOUT, env=env, text=True)
    if p.returncode != 0:
        print(p.stdout[-2000:])
        raise SystemExit("isoquant failed")
    return os.path.join(out, "OUT")


def models(outdir, L, mirrored):
    res = {}
    for line in open(os.path.join(outdir, "OUT.transcript_models.gtf")):
        f = line.rstrip("\n").split("\t")
        if line.startswith("#") or f[2] != "transcript" or "nnic" not in f[8]:
            continue
        s, e = int(f[3]), int(f[4])
        if mirrored:
            s, e = L + 1 - e, L + 1 - s
        sim = re.search('similar_reference_id "([^"]*)"', f[8])
        alt = re.search('alternatives "([^"]*)"', f[8])
        names = sorted(re.findall(r"[a-z_]*polya[a-z_]*", alt.group(1))) if alt else None
        res["novel model %d-%d strand %s" % (s, e, f[6])] = ("similar_reference_id=%s" % (sim.group(1) if sim else None),
                                                             "polyA events in `alternatives`: %s" % names)
    return res


def main():
    if os.path.exists(SCRATCH):
        shutil.rmtree(SCRATCH)
    genome, known, reads = build()
    L = len(genome)
    res = {}
    for name, mirrored in (("forward", False), ("mirrored", True)):
        d = os.path.join(SCRATCH, name)
        write_inputs(d, genome, known, reads, mirrored)
        res[name] = models(run(d), L, mirrored)
    bad = False
    for k in sorted(set(res["forward"]) | set(res["mirrored"])):
        a, b = res["forward"].get(k), res["mirrored"].get(k)
        flag = "" if a == b else "   <-- differs"
        if a != b:
            bad = True
        print("%s" % k)
        print("    forward : %s" % (a,))
        print("    mirrored: %s%s" % (b, flag))
    shutil.rmtree(SCRATCH, ignore_errors=True)
    if bad:
        print("VIOLATION: the annotation of the unstranded model differs between the orientations")
        return 1
    print("ok: the attributes agree")
    return 0


if __name__ == "__main__":
    sys.exit(main())
