#!/venv/bin/python
"""
C11 (reflection), finding 8 (--data_type pacbio_ccs, otherwise defaults): the intron graph is simplified on the
3' side first and on the 5' side afterwards, and the first pass leaves a dangling edge behind.
IntronGraph.remove_singleton_dead_ends (src/intron_graph.py:305-345) first removes single-read tips from the OUTGOING
edges of well covered introns, then - on the modified graph - from the INCOMING edges.  The removed introns are deleted
from `outgoing_edges`/`incoming_edges` as keys, but they stay in the edge SETS of their neighbours.  Which neighbour
keeps the dangling edge depends on the order of the two passes, i.e. on the orientation of the genome.

Input (noise-free, no tails): 101 reads of a two-exon transcript X (1001-1200, 2001-2200), 101 reads of a three-exon
transcript Y (3001-3300, 3601-3800, 4101-4400) and ONE read-through read that links the second exon of X (prolonged
to 2250) to the first exon of Y.  The locus is not annotated (the GTF holds one unrelated gene elsewhere).
  forward genome : the intron of X keeps the single-read intron as an outgoing neighbour, the ends of the X reads
                   (2200 < 2251 + delta) are taken for positions inside an exon, X gets no terminal vertex:
                   only Y is reported, the 101 X reads are not used
  mirrored genome: the dangling edge is cleaned up by the second pass: X and Y are both reported
(101 reads because `singleton_adjacent_cov` is 100 for PacBio; with `--data_type nanopore --polya_requirement never`
12 reads of each transcript give the same picture.)
Exit code 1 = property violated, 0 = not violated.
"""
import os, sys, subprocess, shutil, random, re
import pysam

HERE = os.path.dirname(os.path.abspath(__file__))
ISOQUANT = os.path.join(HERE, "isoquant.py")
PY = "/venv/bin/python"
SCRATCH = "/tmp/hunt3scratch_C11/demo8"
COMP = str.maketrans("ACGT", "TGCA")


def revcomp(s):
    return s.translate(COMP)[::-1]


def put(seq, pos1, s):
    return seq[:pos1 - 1] + s + seq[pos1 - 1 + len(s):]


def build():
    rng = random.Random(4)
    genome = "".join(rng.choice("ACGT") for _ in range(9000))
    known = [(7001, 7600)]                       # an unrelated annotated gene
    X = [(1001, 1200), (2001, 2200)]
    Y = [(3001, 3300), (3601, 3800), (4101, 4400)]
    Z = [(1001, 1200), (2001, 2250), (3051, 3300), (3601, 3800), (4101, 4400)]
    for ex in (X, Y, Z):
        for i in range(len(ex) - 1):
            genome = put(genome, ex[i][1] + 1, "GT")
            genome = put(genome, ex[i + 1][0] - 2, "AG")
    reads = [("x%03d" % i, list(X)) for i in range(101)] + [("y%03d" % i, list(Y)) for i in range(101)]
    reads.append(("z_readthrough", list(Z)))
    reads += [("k%02d" % i, list(known)) for i in range(3)]
    return genome, known, reads


def write_inputs(d, genome, known, reads, mirrored):
    os.makedirs(d, exist_ok=True)
    L = len(genome)
    strand = '+'
    if mirrored:
        genome = revcomp(genome)
        known = sorted((L + 1 - e, L + 1 - s) for s, e in known)
        reads = [(n, sorted((L + 1 - e, L + 1 - s) for s, e in ex)) for n, ex in reads]
        strand = '-'
    with open(os.path.join(d, "genome.fa"), "w") as f:
        f.write(">chr1\n")
        for i in range(0, L, 60):
            f.write(genome[i:i + 60] + "\n")
    with open(os.path.join(d, "annot.gtf"), "w") as f:
        f.write('chr1\tt\tgene\t%d\t%d\t.\t%s\t.\tgene_id "G1";\n' % (known[0][0], known[-1][1], strand))
        f.write('chr1\tt\ttranscript\t%d\t%d\t.\t%s\t.\tgene_id "G1"; transcript_id "T1";\n' % (known[0][0], known[-1][1], strand))
        for s, e in known:
            f.write('chr1\tt\texon\t%d\t%d\t.\t%s\t.\tgene_id "G1"; transcript_id "T1";\n' % (s, e, strand))
    header = {'HD': {'VN': '1.6', 'SO': 'coordinate'}, 'SQ': [{'SN': 'chr1', 'LN': L}]}
    bam = os.path.join(d, "reads.bam")
    with pysam.AlignmentFile(bam, "wb", header=header) as out:
        for name, ex in sorted(reads, key=lambda r: (r[1][0][0], r[0])):
            body = "".join(genome[s - 1:e] for s, e in ex)
            cigar = []
            for i, (s, e) in enumerate(ex):
                if i:
                    cigar.append((3, s - ex[i - 1][1] - 1))
                cigar.append((0, e - s + 1))
            a = pysam.AlignedSegment(out.header)
            a.query_name = name
            a.query_sequence = body
            a.cigartuples = cigar
            a.flag = 16 if mirrored else 0
            a.reference_id = 0
            a.reference_start = ex[0][0] - 1
            a.mapping_quality = 60
            a.query_qualities = pysam.qualitystring_to_array("I" * len(a.query_sequence))
            out.write(a)
    pysam.index(bam)


def run(d):
    env = dict(os.environ)
    env["HOME"] = os.path.join(d, "home")
    os.makedirs(env["HOME"], exist_ok=True)
    out = os.path.join(d, "out")
    cmd = [PY, ISOQUANT, "--reference", os.path.join(d, "genome.fa"), "--genedb", os.path.join(d, "annot.gtf"),
           "--complete_genedb", "--bam", os.path.join(d, "reads.bam"), "--data_type", "pacbio_ccs", "-o", out,
           "--threads", "1", "--no_gzip"]
    p = subprocess.run(cmd, stdout=subprocess.PIPE, stderr=subprocess.STDOUT, env=env, text=True)
    if p.returncode != 0:
        print(p.stdout[-2000:])
        raise SystemExit("isoquant failed")
    return os.path.join(out, "OUT")


def models(outdir, L, mirrored):
    """model structure (in forward coordinates) -> (count, sorted reads)"""
    tr = {}
    for line in open(os.path.join(outdir, "OUT.transcript_models.gtf")):
        if line.startswith("#"):
            continue
        f = line.rstrip("\n").split("\t")
        if f[2] != "exon":
            continue
        tid = re.search('transcript_id "([^"]+)"', f[8]).group(1)
        s, e = int(f[3]), int(f[4])
        if mirrored:
            s, e = L + 1 - e, L + 1 - s
        tr.setdefault(tid, []).append((s, e))
    counts = {}
    for line in open(os.path.join(outdir, "OUT.transcript_model_counts.tsv")):
        if not line.startswith("#"):
            a, b = line.split("\t")[:2]
            counts[a] = b.strip()
    rd = {}
    for line in open(os.path.join(outdir, "OUT.transcript_model_reads.tsv")):
        if not line.startswith("#"):
            a, b = line.rstrip("\n").split("\t")[:2]
            rd.setdefault(b, []).append(a)
    return {tuple(sorted(ex)): (counts.get(t), sorted(rd.get(t, []))) for t, ex in tr.items()}


def main():
    if os.path.exists(SCRATCH):
        shutil.rmtree(SCRATCH)
    genome, known, reads = build()
    L = len(genome)
    res = {}
    for name, mirrored in (("forward", False), ("mirrored", True)):
        d = os.path.join(SCRATCH, name)
        write_inputs(d, genome, known, reads, mirrored)
        res[name] = models(run(d), L, mirrored)
    bad = False
    for k in sorted(set(res["forward"]) | set(res["mirrored"])):
        a, b = res["forward"].get(k), res["mirrored"].get(k)
        flag = "" if a == b else "   <-- differs"
        if a != b:
            bad = True
        print("model %s" % (list(k),))
        short = lambda v: None if v is None else (v[0], "%d reads: %s ..." % (len(v[1]), ", ".join(v[1][:3])))
        print("    forward : %s" % (short(a),))
        print("    mirrored: %s%s" % (short(b), flag))
    shutil.rmtree(SCRATCH, ignore_errors=True)
    if bad:
        print("VIOLATION: noise-free reads, the transcript models / their counts / their reads are not mirrored")
        return 1
    print("ok: models, counts and read lists are mirrored")
    return 0


if __name__ == "__main__":
    sys.exit(main())
