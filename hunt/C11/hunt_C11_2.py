import os, re, sys, random, shutil, subprocess
import pysam

REPO = "/tmp/hunt/C11"
PY = "/venv/bin/python"
SCRATCH = "/tmp/huntscratch_C11/" + os.path.splitext(os.path.basename(__file__))[0]
COMP = {"A": "T", "C": "G", "G": "C", "T": "A", "N": "N"}


def revcomp(s):
    return "".join(COMP[c] for c in reversed(s))


class World:
    """Tiny synthetic data set: one or more chromosomes, a GTF and a set of alignments (all coordinates 1-based, closed)."""

    def __init__(self, seed=1):
        self.rnd = random.Random(seed)
        self.genome, self.genes, self.reads = {}, [], []

    def add_chr(self, name, length):
        seq = []
        for i in range(length):
            c = self.rnd.choice("ACGT")
            while len(seq) >= 2 and c in "AT" and seq[-1] == c and seq[-2] == c:   # no A/T runs: no accidental polyA
                c = self.rnd.choice("CG")
            seq.append(c)
        self.genome[name] = "".join(seq)

    def stamp(self, chr_id, pos1, s):
        g = self.genome[chr_id]
        self.genome[chr_id] = g[:pos1 - 1] + s + g[pos1 - 1 + len(s):]

    def stamp_intron(self, chr_id, intron, strand):
        left, right = ("GT", "AG") if strand == '+' else ("CT", "AC")
        self.stamp(chr_id, intron[0], left)
        self.stamp(chr_id, intron[1] - 1, right)

    def add_gene(self, gene_id, chr_id, strand, transcripts):
        self.genes.append(dict(gene_id=gene_id, chr=chr_id, strand=strand, transcripts=transcripts))
        for tid, exons in transcripts:
            for i in range(len(exons) - 1):
                self.stamp_intron(chr_id, (exons[i][1] + 1, exons[i + 1][0] - 1), strand)

    def add_read(self, name, chr_id, exons, reverse=False, polya=0, polyt=0, stamp_strand=None):
        """exons: aligned blocks; polya: number of soft clipped A's at the right end; polyt: T's at the left end"""
        cigar = [(4, polyt)] if polyt else []
        for i, e in enumerate(exons):
            if i > 0:
                cigar.append((3, e[0] - exons[i - 1][1] - 1))
                if stamp_strand:
                    self.stamp_intron(chr_id, (exons[i - 1][1] + 1, e[0] - 1), stamp_strand)
            cigar.append((0, e[1] - e[0] + 1))
        if polya:
            cigar.append((4, polya))
        self.reads.append(dict(name=name, chr=chr_id, start0=exons[0][0] - 1, cigar=cigar, reverse=reverse))

    def translated(self, k):
        w = World()
        rnd = random.Random(99)
        for c, s in self.genome.items():
            w.genome[c] = "".join(rnd.choice("CG") for _ in range(k)) + s
        for g in self.genes:
            w.genes.append(dict(g, transcripts=[(t, [(a + k, b + k) for a, b in ex]) for t, ex in g["transcripts"]]))
        for r in self.reads:
            w.reads.append(dict(r, start0=r["start0"] + k))
        return w

    def mirrored(self):
        """reverse complement of the genome, annotation and alignments mirrored"""
        w = World()
        for c, s in self.genome.items():
            w.genome[c] = revcomp(s)
        for g in self.genes:
            L = len(self.genome[g["chr"]])
            w.genes.append(dict(g, strand='-' if g["strand"] == '+' else '+',
                                transcripts=[(t, sorted((L + 1 - b, L + 1 - a) for a, b in ex))
                                             for t, ex in g["transcripts"]]))
        for r in self.reads:
            L = len(self.genome[r["chr"]])
            end0 = r["start0"] + sum(l for op, l in r["cigar"] if op in (0, 2, 3))
            w.reads.append(dict(r, start0=L - end0, cigar=list(reversed(r["cigar"])), reverse=not r["reverse"]))
        return w

    def read_seq(self, r):
        g, pos, out = self.genome[r["chr"]], r["start0"], []
        for i, (op, l) in enumerate(r["cigar"]):
            if op == 0:
                out.append(g[pos:pos + l])
                pos += l
            elif op == 3:
                pos += l
            elif op == 4:
                out.append(("T" if i == 0 else "A") * l)
        return "".join(out)

    def write(self, d):
        os.makedirs(d, exist_ok=True)
        fa, gtf, bam = (os.path.join(d, x) for x in ("genome.fa", "annot.gtf", "reads.bam"))
        with open(fa, "w") as f:
            for c, s in self.genome.items():
                f.write(">%s\n" % c)
                for i in range(0, len(s), 60):
                    f.write(s[i:i + 60] + "\n")
        with open(gtf, "w") as f:
            for g in self.genes:
                allex = [e for t, ex in g["transcripts"] for e in ex]
                attr = 'gene_id "%s";' % g["gene_id"]
                row = (g["chr"], "src", "gene", min(a for a, b in allex), max(b for a, b in allex), ".", g["strand"], ".", attr)
                f.write("\t".join(map(str, row)) + "\n")
                for t, ex in g["transcripts"]:
                    tattr = attr + ' transcript_id "%s";' % t
                    f.write("\t".join(map(str, (g["chr"], "src", "transcript", ex[0][0], ex[-1][1], ".", g["strand"], ".", tattr))) + "\n")
                    for a, b in ex:
                        f.write("\t".join(map(str, (g["chr"], "src", "exon", a, b, ".", g["strand"], ".", tattr))) + "\n")
        chrs = list(self.genome.keys())
        header = {"HD": {"VN": "1.6", "SO": "coordinate"}, "SQ": [{"SN": c, "LN": len(self.genome[c])} for c in chrs]}
        with pysam.AlignmentFile(bam, "wb", header=header) as out:
            for r in sorted(self.reads, key=lambda r: (chrs.index(r["chr"]), r["start0"])):
                a = pysam.AlignedSegment(out.header)
                a.query_name, a.reference_id, a.reference_start = r["name"], chrs.index(r["chr"]), r["start0"]
                a.cigartuples, a.mapping_quality, a.flag = r["cigar"], 60, (16 if r["reverse"] else 0)
                a.query_sequence = self.read_seq(r)
                a.query_qualities = pysam.qualitystring_to_array("I" * len(a.query_sequence))
                out.write(a)
        pysam.index(bam)
        return fa, gtf, bam


def run_isoquant(world, name, extra=()):
    d = os.path.join(SCRATCH, name)
    shutil.rmtree(d, ignore_errors=True)
    fa, gtf, bam = world.write(d)
    home = os.path.join(d, "home")
    os.makedirs(home)
    cmd = [PY, os.path.join(REPO, "isoquant.py"), "--reference", fa, "--genedb", gtf, "--complete_genedb", "--bam", bam,
           "--data_type", "nanopore", "-o", os.path.join(d, "out"), "--threads", "1", "--no_gzip"] + list(extra)
    p = subprocess.run(cmd, env=dict(os.environ, HOME=home), stdout=subprocess.PIPE, stderr=subprocess.STDOUT, text=True)
    if p.returncode != 0:
        print(p.stdout[-3000:])
        raise SystemExit("IsoQuant run %s failed with code %d" % (name, p.returncode))
    return os.path.join(d, "out", "OUT")


def assignments(outdir):
    """read id -> list of dicts (one per reported isoform)"""
    res = {}
    for line in open(os.path.join(outdir, "OUT.read_assignments.tsv")):
        if not line.startswith("#"):
            f = line.rstrip("\n").split("\t")
            res.setdefault(f[0], []).append(dict(chr=f[1], strand=f[2], isoform=f[3], gene=f[4], type=f[5],
                                                 events=f[6], exons=f[7], info=f[8]))
    return res


def table(fn):
    return {l.split("\t")[0]: l.rstrip("\n").split("\t")[1] for l in open(fn) if not l.startswith("#")}


def models(outdir):
    """sorted list of (chr, strand, exons, known id or 'novel', count) from the transcript model GTF and its counts"""
    ms = {}
    for line in open(os.path.join(outdir, "OUT.transcript_models.gtf")):
        f = line.rstrip("\n").split("\t")
        if line.startswith("#") or f[2] != "exon":
            continue
        tid = re.search(r'transcript_id "([^"]+)"', f[8]).group(1)
        ms.setdefault(tid, [f[0], f[6], []])[2].append((int(f[3]), int(f[4])))
    counts = table(os.path.join(outdir, "OUT.transcript_model_counts.tsv"))
    return sorted((c, s, tuple(sorted(ex)), "novel" if tid.startswith("transcript") else tid, counts.get(tid))
                  for tid, (c, s, ex) in ms.items())


def mirror_models(ms, world):
    flip = {'+': '-', '-': '+', '.': '.'}
    return sorted((c, flip[s], tuple(sorted((len(world.genome[c]) + 1 - b, len(world.genome[c]) + 1 - a) for a, b in ex)), t, n)
                  for c, s, ex, t, n in ms)


def event_names(events, mirror=False):
    """names of the events of one assignment line; with mirror=True 'left' and 'right' are swapped
    (5'/3', donor/acceptor, tss/tes names are strand aware already and must stay as they are)"""
    names = []
    for e in (re.split(r",(?=[A-Za-z])", events) if events not in (".", "") else []):
        n = e.split(":")[0]
        if mirror:
            n = n.replace("left", "\0").replace("right", "left").replace("\0", "right")
        names.append(n)
    return sorted(names)


def summary(recs, mirror=False):
    return sorted((r["isoform"], r["type"], tuple(event_names(r["events"], mirror))) for r in recs)


def finish(problems):
    shutil.rmtree(SCRATCH, ignore_errors=True)
    try:
        os.rmdir(os.path.dirname(SCRATCH))   # remove the scratch root as well if nothing else lives there
    except OSError:
        pass
    if problems:
        print("PROPERTY C11 VIOLATED:")
        for p in problems:
            print("  " + p)
        sys.exit(1)
    print("no violation observed")
    sys.exit(0)

# ---------------------------------------------------------------------------------------------------------------------
# Finding 2: a retained micro intron (<= 50 bp, event fake_micro_intron_retention) is restored in the corrected read only
# if it does not lie in the LAST aligned block of the read (exon_corrector.process_events never looks at the key of the
# last exon).  Reads 'f*' miss the micro intron of the first exon, reads 'l*' miss the micro intron of the last exon;
# all alignments are exact copies of the reference sequence (no sequencing noise), all have a polyA tail.
# In the original orientation the f-reads are repaired and the l-reads give a spurious novel model, after reflection it
# is the other way round, so the set of discovered transcript models is not the mirrored one.
# ---------------------------------------------------------------------------------------------------------------------
w = World(1)
w.add_chr("chr1", 8000)
T = [(1000, 1200), (1241, 1400), (1801, 2000), (2401, 2560), (2601, 2800)]
w.add_gene("G1", "chr1", "+", [("T", T)])
for i in range(4):
    w.add_read("f%d" % i, "chr1", [(1000, 1400), (1801, 2000), (2401, 2560), (2601, 2800)], polya=30)
    w.add_read("l%d" % i, "chr1", [(1000, 1200), (1241, 1400), (1801, 2000), (2401, 2800)], polya=30)
mw = w.mirrored()
o = run_isoquant(w, "orig")
m = run_isoquant(mw, "mirror")
mo, mm = models(o), mirror_models(models(m), mw)
print("models of the original data:")
for x in mo: print("   ", x)
print("models of the mirrored data, mapped back:")
for x in mm: print("   ", x)
problems = []
if mo != mm:
    problems.append("transcript models differ: only original %s, only mirrored %s" %
                    (sorted(set(mo) - set(mm)), sorted(set(mm) - set(mo))))
def bed_blocks(od):
    return {l.split("\t")[3]: int(l.split("\t")[9]) for l in open(od + "/OUT.corrected_reads.bed") if not l.startswith("#")}
bo, bm = bed_blocks(o), bed_blocks(m)
print("corrected exon counts original:", bo)
print("corrected exon counts mirrored:", bm)
if bo != bm:
    problems.append("corrected reads differ (number of exons per read): original %s, mirrored %s" % (bo, bm))

# (b) same function: the retained micro introns are stored in a dict keyed by the read exon, so of two micro introns
# retained in ONE block only the one visited last (the right one) is restored; after reflection it is the other one
# (here even none, because the block is then the last block of the read).
w2 = World(2)
w2.add_chr("chr1", 8000)
w2.add_gene("G1", "chr1", "+", [("T", [(1000, 1200), (1241, 1400), (1441, 1600), (2001, 2300)])])
for i in range(4):
    w2.add_read("d%d" % i, "chr1", [(1000, 1600), (2001, 2300)], polya=30)
mw2 = w2.mirrored()
mo2 = [x[:4] for x in models(run_isoquant(w2, "orig_b"))]
mm2 = [x[:4] for x in mirror_models(models(run_isoquant(mw2, "mirror_b")), mw2)]
print("two micro introns in one block, models original:", mo2)
print("two micro introns in one block, models mirrored (mapped back):", mm2)
if mo2 != mm2:
    problems.append("two retained micro introns in one block: models %s vs %s" % (mo2, mm2))
finish(problems)
