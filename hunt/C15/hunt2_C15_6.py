#!/venv/bin/python
# second-pass hunt, property C15 (saved read assignments round-trip and can be reused), finding 6
import glob, gzip, os, random, shutil, subprocess, sys

import pysam

PY = "/venv/bin/python"
REPO = "/tmp/hunt2/C15"
ISOQUANT = os.path.join(REPO, "isoquant.py")
SCRATCH = "/tmp/hunt2scratch_C15"

CHROMS = {"chr1": 20000, "chr2": 12000}
A1 = [(1001, 1200), (1501, 1700), (2001, 2300)]
A2 = [(1001, 1200), (2001, 2300)]
B1 = [(5001, 5200), (5601, 5800), (6201, 6500)]
C1 = [(3001, 3300), (3701, 3900)]
D1 = [(8001, 8600)]
GENES = [("geneA", "chr1", "+", [("A1", A1), ("A2", A2)]), ("geneB", "chr1", "-", [("B1", B1)]),
         ("geneC", "chr2", "+", [("C1", C1)]), ("geneD", "chr2", "+", [("D1", D1)])]


def make_inputs(wd, second_chr="chr2", tag_fun=None, n_bams=1):
    """tiny genome (canonical GT..AG / CT..AC at the annotated introns), GTF and sorted indexed BAM(s)"""
    if os.path.exists(wd):
        shutil.rmtree(wd)
    os.makedirs(wd)
    ren = lambda c: second_chr if c == "chr2" else c
    chroms = {ren(c): l for c, l in CHROMS.items()}
    rnd = random.Random(1)
    seqs = {c: [rnd.choice("ACGT") for _ in range(l)] for c, l in chroms.items()}
    for gid, c, strand, trs in GENES:
        for tid, exons in trs:
            for i in range(len(exons) - 1):
                s, e = exons[i][1] + 1, exons[i + 1][0] - 1
                seqs[ren(c)][s - 1:s + 1] = "GT" if strand == "+" else "CT"
                seqs[ren(c)][e - 2:e] = "AG" if strand == "+" else "AC"
    seqs = {c: "".join(s) for c, s in seqs.items()}
    with open(os.path.join(wd, "genome.fa"), "w") as f:
        for c, s in seqs.items():
            f.write(">%s\n%s\n" % (c, "\n".join(s[i:i + 60] for i in range(0, len(s), 60))))
    with open(os.path.join(wd, "annot.gtf"), "w") as f:
        for gid, c, strand, trs in GENES:
            gs = min(e[0] for t in trs for e in t[1])
            ge = max(e[1] for t in trs for e in t[1])
            f.write('%s\ttest\tgene\t%d\t%d\t.\t%s\t.\tgene_id "%s";\n' % (ren(c), gs, ge, strand, gid))
            for tid, exons in trs:
                f.write('%s\ttest\ttranscript\t%d\t%d\t.\t%s\t.\tgene_id "%s"; transcript_id "%s";\n' %
                        (ren(c), exons[0][0], exons[-1][1], strand, gid, tid))
                for e in exons:
                    f.write('%s\ttest\texon\t%d\t%d\t.\t%s\t.\tgene_id "%s"; transcript_id "%s";\n' %
                            (ren(c), e[0], e[1], strand, gid, tid))
    bams = []
    all_reads = []
    for b in range(n_bams):
        reads = []
        def add(c, exons, reverse=False, polya=0, polyt=0):
            reads.append(dict(name="f%d_r%d" % (b, len(reads) + 1), chr=ren(c), exons=exons, reverse=reverse,
                              polya=polya, polyt=polyt))
        for i in range(6):
            add("chr1", [(1001 + i, 1200), (1501, 1700), (2001, 2300 - i)], polya=20)
        for i in range(4):
            add("chr1", [(1010, 1200), (2001, 2290)], polya=25)
        for i in range(3):
            add("chr1", [(1020, 1200), (1501, 1690)])
        for i in range(5):
            add("chr1", [(5001 + i, 5200), (5601, 5800), (6201, 6490)], reverse=True, polyt=22)
        for i in range(4):
            add("chr2", [(3001, 3300), (3701, 3890 + i)], polya=20)
        for i in range(3):
            add("chr2", [(8010, 8590)], polya=20)
        path = os.path.join(wd, "reads%d.bam" % b)
        header = {"HD": {"VN": "1.0", "SO": "coordinate"}, "SQ": [{"SN": c, "LN": l} for c, l in chroms.items()]}
        names = list(chroms.keys())
        recs = []
        for n, r in enumerate(reads):
            a = pysam.AlignedSegment()
            a.query_name = r["name"]
            cigar, seq = [], ""
            if r["polyt"]:
                cigar.append((4, r["polyt"])); seq += "T" * r["polyt"]
            for i, e in enumerate(r["exons"]):
                if i > 0:
                    cigar.append((3, e[0] - r["exons"][i - 1][1] - 1))
                cigar.append((0, e[1] - e[0] + 1)); seq += seqs[r["chr"]][e[0] - 1:e[1]]
            if r["polya"]:
                cigar.append((4, r["polya"])); seq += "A" * r["polya"]
            a.query_sequence = seq
            a.flag = 16 if r["reverse"] else 0
            a.reference_id = names.index(r["chr"])
            a.reference_start = r["exons"][0][0] - 1
            a.mapping_quality = 60
            a.cigar = cigar
            if tag_fun:
                a.set_tag(*tag_fun(n))
            recs.append(a)
        recs.sort(key=lambda a: (a.reference_id, a.reference_start))
        with pysam.AlignmentFile(path, "wb", header=header) as out:
            for a in recs:
                out.write(a)
        pysam.index(path)
        bams.append(path)
        all_reads.append(reads)
    return bams, all_reads


def common_args(wd):
    return ["--reference", os.path.join(wd, "genome.fa"), "--genedb", os.path.join(wd, "annot.gtf"), "--complete_genedb",
            "--data_type", "nanopore", "--threads", "1", "--no_gzip"]


def run(cmd, wd, extra_env=None):
    env = dict(os.environ)
    env["HOME"] = os.path.join(wd, "home")
    os.makedirs(env["HOME"], exist_ok=True)
    env.update(extra_env or {})
    return subprocess.run(cmd, env=env, stdout=subprocess.PIPE, stderr=subprocess.STDOUT, text=True, timeout=300)


def isoquant(args, wd):
    return run([PY, ISOQUANT] + args, wd)


def content(path):
    with open(path) as f:
        return [l for l in f if not l.startswith("# Command line") and not l.startswith("# IsoQuant version")
                and "IsoQuant generated GTF" not in l]


def compare_outputs(d1, p1, d2, p2):
    """compares the output files of two experiments (names differ by the experiment prefix only)"""
    f1 = {f[len(p1):]: f for f in os.listdir(d1) if f.startswith(p1 + ".") and os.path.isfile(os.path.join(d1, f))}
    f2 = {f[len(p2):]: f for f in os.listdir(d2) if f.startswith(p2 + ".") and os.path.isfile(os.path.join(d2, f))}
    diffs = []
    for s in sorted(set(f1) | set(f2)):
        if s not in f1 or s not in f2:
            diffs.append("%s exists only in the %s run" % (s, "first" if s in f1 else "second"))
            continue
        a, b = content(os.path.join(d1, f1[s])), content(os.path.join(d2, f2[s]))
        if a != b:
            first = [(x.rstrip("\n"), y.rstrip("\n")) for x, y in zip(a, b) if x != y][:2]
            diffs.append("%s differs (%d vs %d lines), e.g. %s" % (s, len(a), len(b), first))
    return diffs


def last_error(p):
    lines = p.stdout.strip().splitlines()
    return "\n    ".join(lines[-4:])

import io
sys.path.insert(0, REPO)


def main():
    from src.isoform_assignment import ReadAssignment, BasicReadAssignment, ReadAssignmentType, IsoformMatch, \
        MatchClassification
    from src.polya_finder import PolyAInfo
    ra = ReadAssignment("read1", ReadAssignmentType.intergenic, IsoformMatch(MatchClassification.intergenic))
    ra.exons = []                 # empty list: written and read back by the full format without complaint
    ra.corrected_exons = []
    ra.polya_info = PolyAInfo(-1, -1, -1, -1)
    ra.chr_id = "chr1"
    buf = io.BytesIO()
    ra.serialize(buf)
    buf.seek(0)
    full = ReadAssignment.deserialize(buf, None)
    assert full.exons == [] and buf.read() == b""
    in_memory = BasicReadAssignment(ra)          # what --high_memory uses: start = end = 0
    buf.seek(0)
    try:
        quick = BasicReadAssignment.deserialize_from_read_assignment(buf)   # what the default mode uses
    except Exception as e:
        print("VIOLATION (unit level): the full format round-trips an assignment with an empty exon list, "
              "BasicReadAssignment(assignment) gives start=%d end=%d, but the abridged reader raises %r"
              % (in_memory.start, in_memory.end, e))
        return 1
    if (quick.start, quick.end) != (in_memory.start, in_memory.end) or buf.read() != b"":
        print("VIOLATION: abridged reader disagrees", (quick.start, quick.end), (in_memory.start, in_memory.end))
        return 1
    print("OK")
    return 0


if __name__ == "__main__":
    sys.exit(main())
