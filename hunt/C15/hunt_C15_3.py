#!/venv/bin/python
"""
C15 finding 3: restart from saved assignments only (input type "save": --read_assignments without --bam) loses the
information that the experiment consisted of several files.  The saving run (2 BAM files, default grouping by file
name) applies the "technical replicas" filter in GraphBasedModelConstructor (a novel transcript must be supported by
reads of more than one file) and writes grouped count tables; the restarted run has len(sample.file_list) == 1, so
args.use_technical_replicas is False (and, without --read_group, grouped tables disappear).  Even with an explicit
--read_group file_name the restarted run reports a novel transcript that the saving run filtered out.

Exit code 1 = transcript models of the restarted run differ from the saving run, 0 = identical.
"""
import os
import random
import shutil
import subprocess
import sys

import pysam

REPO = os.path.dirname(os.path.abspath(__file__))
PY = sys.executable if os.path.exists(sys.executable) else "/venv/bin/python"
W = "/tmp/huntscratch_C15/hunt3"


def make_genome(path, chroms):
    rnd = random.Random(7)
    seqs = {}
    with open(path, "w") as f:
        for name, (length, introns) in chroms.items():
            s = [rnd.choice("CGT") if i % 3 else rnd.choice("ACGT") for i in range(length)]
            for (a, b, strand) in introns:
                if strand == '+':
                    s[a - 1:a + 1] = "GT"
                    s[b - 2:b] = "AG"
                else:
                    s[a - 1:a + 1] = "CT"
                    s[b - 2:b] = "AC"
            seq = "".join(s)
            seqs[name] = seq
            f.write(">%s\n" % name)
            for i in range(0, length, 60):
                f.write(seq[i:i + 60] + "\n")
    return seqs


def make_gtf(path, genes):
    with open(path, "w") as f:
        for chr_id, gid, strand, transcripts in genes:
            gs = min(e[0][0] for e in transcripts.values())
            ge = max(e[-1][1] for e in transcripts.values())
            f.write('%s\tsrc\tgene\t%d\t%d\t.\t%s\t.\tgene_id "%s";\n' % (chr_id, gs, ge, strand, gid))
            for tid, exons in transcripts.items():
                f.write('%s\tsrc\ttranscript\t%d\t%d\t.\t%s\t.\tgene_id "%s"; transcript_id "%s";\n' %
                        (chr_id, exons[0][0], exons[-1][1], strand, gid, tid))
                for i, (s, e) in enumerate(exons):
                    f.write('%s\tsrc\texon\t%d\t%d\t.\t%s\t.\tgene_id "%s"; transcript_id "%s"; exon_number "%d";\n'
                            % (chr_id, s, e, strand, gid, tid, i + 1))


def make_bam(path, seqs, reads, unmapped=0):
    names = list(seqs.keys())
    hdr = pysam.AlignmentHeader.from_dict({"HD": {"VN": "1.6", "SO": "coordinate"},
                                           "SQ": [{"SN": n, "LN": len(seqs[n])} for n in names]})
    recs = []
    for r in reads:
        a = pysam.AlignedSegment(hdr)
        a.query_name = r["name"]
        exons = r["exons"]
        cigar, q = [], ""
        if r.get("polyt"):
            cigar.append((4, r["polyt"]))
            q += "T" * r["polyt"]
        for i, (s, e) in enumerate(exons):
            if i > 0:
                cigar.append((3, s - exons[i - 1][1] - 1))
            cigar.append((0, e - s + 1))
            q += seqs[r["chr"]][s - 1:e]
        if r.get("polya"):
            cigar.append((4, r["polya"]))
            q += "A" * r["polya"]
        a.query_sequence = q
        a.flag = (16 if r.get("reverse") else 0) | (256 if r.get("secondary") else 0)
        a.reference_id = names.index(r["chr"])
        a.reference_start = exons[0][0] - 1
        a.mapping_quality = r.get("mapq", 60)
        a.cigartuples = cigar
        a.query_qualities = pysam.qualitystring_to_array("I" * len(q))
        for k, v in r.get("tags", {}).items():
            a.set_tag(k, v)
        recs.append(a)
    recs.sort(key=lambda x: (x.reference_id, x.reference_start))
    with pysam.AlignmentFile(path, "wb", header=hdr) as out:
        for a in recs:
            out.write(a)
        for i in range(unmapped):
            a = pysam.AlignedSegment(hdr)
            a.query_name = "unmapped%d" % i
            a.query_sequence = "ACGTACGTAC"
            a.flag = 4
            a.reference_id = -1
            a.reference_start = -1
            a.mapping_quality = 0
            a.query_qualities = pysam.qualitystring_to_array("I" * 10)
            out.write(a)
    pysam.index(path)


def run_isoquant(outdir, extra):
    env = dict(os.environ)
    env["HOME"] = os.path.join(W, "home")
    os.makedirs(env["HOME"], exist_ok=True)
    cmd = [PY, os.path.join(REPO, "isoquant.py"), "-o", outdir, "--threads", "1"] + extra
    p = subprocess.run(cmd, env=env, stdout=subprocess.PIPE, stderr=subprocess.STDOUT, text=True, timeout=300)
    return p.returncode, p.stdout


def content(path):
    return [l for l in open(path) if not l.startswith("# Command line")]


def transcripts(gtf):
    res = []
    for l in open(gtf):
        if l.startswith("#"):
            continue
        v = l.rstrip("\n").split("\t")
        if v[2] == "transcript":
            res.append((v[0], v[3], v[4], v[6], v[8].split('transcript_id "')[1].split('"')[0]))
    return sorted(res)


def main():
    shutil.rmtree(W, ignore_errors=True)
    os.makedirs(W)
    chroms = {"chr1": (10000, [(1201, 1500, '+'), (1701, 2000, '+'), (1301, 1500, '+')])}
    seqs = make_genome(W + "/genome.fa", chroms)
    make_gtf(W + "/annot.gtf", [("chr1", "G1", "+", {"T1": [(1001, 1200), (1501, 1700), (2001, 2300)]})])
    reads_a = [dict(name="a%d" % i, chr="chr1", exons=[(1001, 1200), (1501, 1700), (2001, 2290)], polya=25)
               for i in range(5)]
    # novel isoform (alternative donor site, canonical GT..AG) seen in file A only
    reads_a += [dict(name="an%d" % i, chr="chr1", exons=[(1001, 1300), (1501, 1700), (2001, 2300)], polya=25)
                for i in range(6)]
    reads_b = [dict(name="b%d" % i, chr="chr1", exons=[(1001, 1200), (1501, 1700), (2001, 2290)], polya=25)
               for i in range(5)]
    make_bam(W + "/A.bam", seqs, reads_a)
    make_bam(W + "/B.bam", seqs, reads_b)
    base = ["--reference", W + "/genome.fa", "--genedb", W + "/annot.gtf", "--complete_genedb",
            "--data_type", "nanopore", "--no_gzip"]
    rc, log = run_isoquant(W + "/saving_run", base + ["--bam", W + "/A.bam", W + "/B.bam", "--keep_tmp"])
    if rc != 0:
        print("saving run failed unexpectedly\n" + log[-2000:])
        return 2
    save_prefix = W + "/saving_run/OUT/aux/OUT.save"
    rc, log = run_isoquant(W + "/restarted_run", base + ["--read_assignments", save_prefix, "--read_group", "file_name"])
    if rc != 0:
        print("restarted run failed\n" + log[-2000:])
        return 1
    t1 = transcripts(W + "/saving_run/OUT/OUT.transcript_models.gtf")
    t2 = transcripts(W + "/restarted_run/OUT0/OUT0.transcript_models.gtf")
    if t1 != t2:
        print("VIOLATION: transcript models differ between the saving run (--bam A.bam B.bam) and the run restarted "
              "from its saved assignments (--read_assignments OUT.save --read_group file_name):")
        print("  saving run   :", t1)
        print("  restarted run:", t2)
        return 1
    print("OK: same transcript models")
    return 0


if __name__ == "__main__":
    rc = main()
    shutil.rmtree(W, ignore_errors=True)
    sys.exit(rc)
