#!/venv/bin/python
"""
C15 finding 2: a saved run with several experiments cannot be reused: --read_assignments accepts several saved
prefixes (nargs='+', one experiment is created per prefix in InputDataStorage), but
 (a) with two prefixes IsoQuant dies with IndexError in InputDataStorage.__init__ (illumina_bam = [[]] has one entry),
     also when the experiments are described by the same --yaml file as in the saving run;
 (b) when the experiments are defined by --bam_list, DatasetProcessor.process_sample() loads
     self.args.read_assignments[0] for EVERY experiment, so the second experiment silently gets the reads, counts and
     transcript models of the first one.

Exit code 1 = the restarted run fails or does not reproduce the outputs of the saving run, 0 = everything reproduced.
"""
import os
import random
import shutil
import subprocess
import sys

import pysam

REPO = os.path.dirname(os.path.abspath(__file__))
PY = sys.executable if os.path.exists(sys.executable) else "/venv/bin/python"
W = "/tmp/huntscratch_C15/hunt2"


def make_genome(path, chroms):
    rnd = random.Random(7)
    seqs = {}
    with open(path, "w") as f:
        for name, (length, introns) in chroms.items():
            s = [rnd.choice("CGT") if i % 3 else rnd.choice("ACGT") for i in range(length)]
            for (a, b, strand) in introns:
                if strand == '+':
                    s[a - 1:a + 1] = "GT"
                    s[b - 2:b] = "AG"
                else:
                    s[a - 1:a + 1] = "CT"
                    s[b - 2:b] = "AC"
            seq = "".join(s)
            seqs[name] = seq
            f.write(">%s\n" % name)
            for i in range(0, length, 60):
                f.write(seq[i:i + 60] + "\n")
    return seqs


def make_gtf(path, genes):
    with open(path, "w") as f:
        for chr_id, gid, strand, transcripts in genes:
            gs = min(e[0][0] for e in transcripts.values())
            ge = max(e[-1][1] for e in transcripts.values())
            f.write('%s\tsrc\tgene\t%d\t%d\t.\t%s\t.\tgene_id "%s";\n' % (chr_id, gs, ge, strand, gid))
            for tid, exons in transcripts.items():
                f.write('%s\tsrc\ttranscript\t%d\t%d\t.\t%s\t.\tgene_id "%s"; transcript_id "%s";\n' %
                        (chr_id, exons[0][0], exons[-1][1], strand, gid, tid))
                for i, (s, e) in enumerate(exons):
                    f.write('%s\tsrc\texon\t%d\t%d\t.\t%s\t.\tgene_id "%s"; transcript_id "%s"; exon_number "%d";\n'
                            % (chr_id, s, e, strand, gid, tid, i + 1))


def make_bam(path, seqs, reads, unmapped=0):
    names = list(seqs.keys())
    hdr = pysam.AlignmentHeader.from_dict({"HD": {"VN": "1.6", "SO": "coordinate"},
                                           "SQ": [{"SN": n, "LN": len(seqs[n])} for n in names]})
    recs = []
    for r in reads:
        a = pysam.AlignedSegment(hdr)
        a.query_name = r["name"]
        exons = r["exons"]
        cigar, q = [], ""
        if r.get("polyt"):
            cigar.append((4, r["polyt"]))
            q += "T" * r["polyt"]
        for i, (s, e) in enumerate(exons):
            if i > 0:
                cigar.append((3, s - exons[i - 1][1] - 1))
            cigar.append((0, e - s + 1))
            q += seqs[r["chr"]][s - 1:e]
        if r.get("polya"):
            cigar.append((4, r["polya"]))
            q += "A" * r["polya"]
        a.query_sequence = q
        a.flag = (16 if r.get("reverse") else 0) | (256 if r.get("secondary") else 0)
        a.reference_id = names.index(r["chr"])
        a.reference_start = exons[0][0] - 1
        a.mapping_quality = r.get("mapq", 60)
        a.cigartuples = cigar
        a.query_qualities = pysam.qualitystring_to_array("I" * len(q))
        for k, v in r.get("tags", {}).items():
            a.set_tag(k, v)
        recs.append(a)
    recs.sort(key=lambda x: (x.reference_id, x.reference_start))
    with pysam.AlignmentFile(path, "wb", header=hdr) as out:
        for a in recs:
            out.write(a)
        for i in range(unmapped):
            a = pysam.AlignedSegment(hdr)
            a.query_name = "unmapped%d" % i
            a.query_sequence = "ACGTACGTAC"
            a.flag = 4
            a.reference_id = -1
            a.reference_start = -1
            a.mapping_quality = 0
            a.query_qualities = pysam.qualitystring_to_array("I" * 10)
            out.write(a)
    pysam.index(path)


def run_isoquant(outdir, extra):
    env = dict(os.environ)
    env["HOME"] = os.path.join(W, "home")
    os.makedirs(env["HOME"], exist_ok=True)
    cmd = [PY, os.path.join(REPO, "isoquant.py"), "-o", outdir, "--threads", "1"] + extra
    p = subprocess.run(cmd, env=env, stdout=subprocess.PIPE, stderr=subprocess.STDOUT, text=True, timeout=300)
    return p.returncode, p.stdout


def content(path):
    return [l for l in open(path) if not l.startswith("# Command line")]


def same_outputs(d1, d2):
    bad = []
    for f in sorted(os.listdir(d1)):
        if not os.path.isfile(os.path.join(d1, f)):
            continue
        if not os.path.exists(os.path.join(d2, f)):
            bad.append("%s is missing" % f)
        elif content(os.path.join(d1, f)) != content(os.path.join(d2, f)):
            bad.append("%s differs" % f)
    return bad


def main():
    shutil.rmtree(W, ignore_errors=True)
    os.makedirs(W)
    chroms = {"chr1": (10000, [(1201, 1500, '+'), (1701, 2000, '+'), (1201, 2000, '+'), (5201, 5600, '-')])}
    seqs = make_genome(W + "/genome.fa", chroms)
    make_gtf(W + "/annot.gtf", [
        ("chr1", "G1", "+", {"T1": [(1001, 1200), (1501, 1700), (2001, 2300)], "T2": [(1001, 1200), (2001, 2300)]}),
        ("chr1", "G2", "-", {"T3": [(5001, 5200), (5601, 6000)]})])
    reads_a = [dict(name="a%d" % i, chr="chr1", exons=[(1001 + i, 1200), (1501, 1700), (2001, 2290 + i)], polya=25)
               for i in range(6)]
    reads_b = [dict(name="b%d" % i, chr="chr1", exons=[(5001, 5200), (5601, 5990)], polyt=22, reverse=True)
               for i in range(4)]
    make_bam(W + "/A.bam", seqs, reads_a)
    make_bam(W + "/B.bam", seqs, reads_b)
    with open(W + "/exp.yaml", "w") as f:
        f.write('[\n data format: "bam",\n {name: "E1", long read files: ["%s"]},\n'
                ' {name: "E2", long read files: ["%s"]}\n]\n' % (W + "/A.bam", W + "/B.bam"))
    with open(W + "/bam_list.txt", "w") as f:
        f.write("#E1\n%s\n#E2\n%s\n" % (W + "/A.bam", W + "/B.bam"))
    base = ["--reference", W + "/genome.fa", "--genedb", W + "/annot.gtf", "--complete_genedb",
            "--data_type", "nanopore", "--no_gzip"]
    problems = []

    # (a) experiments given by a YAML file
    rc, log = run_isoquant(W + "/yaml_saving", base + ["--yaml", W + "/exp.yaml", "--keep_tmp"])
    if rc != 0:
        print("saving run failed unexpectedly\n" + log[-2000:])
        return 2
    saves = [W + "/yaml_saving/%s/aux/%s.save" % (e, e) for e in ("E1", "E2")]
    rc, log = run_isoquant(W + "/yaml_restarted", base + ["--yaml", W + "/exp.yaml", "--read_assignments"] + saves)
    if rc != 0:
        last = [l for l in log.strip().split("\n") if l.strip()][-1]
        problems.append("(a) --yaml exp.yaml --read_assignments E1.save E2.save: IsoQuant fails (exit code %d): %s"
                        % (rc, last))
    else:
        for e in ("E1", "E2"):
            bad = same_outputs(W + "/yaml_saving/" + e, W + "/yaml_restarted/" + e)
            if bad:
                problems.append("(a) experiment %s not reproduced: %s" % (e, ", ".join(bad)))

    # (b) experiments given by --bam_list
    rc, log = run_isoquant(W + "/list_saving", base + ["--bam_list", W + "/bam_list.txt", "--keep_tmp"])
    if rc != 0:
        print("saving run failed unexpectedly\n" + log[-2000:])
        return 2
    saves = [W + "/list_saving/%s/aux/%s.save" % (e, e) for e in ("E1", "E2")]
    rc, log = run_isoquant(W + "/list_restarted", base + ["--bam_list", W + "/bam_list.txt", "--read_assignments"] + saves)
    if rc != 0:
        problems.append("(b) --bam_list ... --read_assignments E1.save E2.save failed with exit code %d" % rc)
    else:
        for e in ("E1", "E2"):
            bad = same_outputs(W + "/list_saving/" + e, W + "/list_restarted/" + e)
            if bad:
                first = lambda p: [l.split("\t")[0] for l in content(p) if not l.startswith("#")][:3]
                problems.append("(b) experiment %s not reproduced: %s; reads in read_assignments.tsv: saving run %s, "
                                "restarted run %s" %
                                (e, ", ".join(bad),
                                 first(W + "/list_saving/%s/%s.read_assignments.tsv" % (e, e)),
                                 first(W + "/list_restarted/%s/%s.read_assignments.tsv" % (e, e))))
    if problems:
        print("VIOLATION: a saved run with two experiments is not reproduced from its saved assignments:")
        for p in problems:
            print("  " + p)
        return 1
    print("OK")
    return 0


if __name__ == "__main__":
    rc = main()
    shutil.rmtree(W, ignore_errors=True)
    sys.exit(rc)
