#!/usr/bin/env python3
"""
C15 (borderline): a gene/transcript id of exactly 65535 bytes does not survive the intermediate files.

write_string_or_none() (src/serialization.py) stores the byte length of an id in two bytes and uses the length
65535 as the marker for None.  An id that is exactly 65535 bytes long fits into the length field (write_string/read_string
round-trip it, and read names / chromosome names / group names of that length are fine), but
read_string_or_none() takes its length for the None marker: the id comes back as None and its 65535 bytes stay
unread in the stream, so that everything after it (the rest of the assignment and all following records) is
decoded from the wrong offset - in the full reader and in the abridged reader alike.

Part 1 calls the unchanged serialization functions; part 2 runs the unchanged isoquant.py on a tiny data set whose
annotation (valid GTF, ids have no length limit) names one transcript with 65535 characters.

exit 1 = property violated, exit 0 = fine
"""
import io
import os
import shutil
import subprocess
import sys

HERE = os.path.dirname(os.path.abspath(__file__))
ISOQUANT = os.path.join(HERE, "isoquant.py")
PY = "/venv/bin/python" if os.path.exists("/venv/bin/python") else sys.executable
SCRATCH = "/tmp/hunt3scratch_C15/demo1"
sys.path.insert(0, HERE)

violated = False


def part1():
    global violated
    from src.isoform_assignment import (ReadAssignment, BasicReadAssignment, ReadAssignmentType, IsoformMatch,
                                        MatchClassification, MatchEvent, MatchEventSubtype)
    from src.polya_finder import PolyAInfo
    from src.serialization import write_string, read_string

    for id_len in (65534, 65535):
        tid = "t" * id_len
        # the plain string functions are fine with this length
        buf = io.BytesIO()
        write_string(tid, buf)
        buf.seek(0)
        assert read_string(buf) == tid

        ra = ReadAssignment("read1", ReadAssignmentType.unique,
                            IsoformMatch(MatchClassification.full_splice_match, "geneA", tid,
                                         MatchEvent(MatchEventSubtype.fsm), "+"))
        ra.exons = [(100, 200), (300, 400)]
        ra.corrected_exons = [(100, 200), (300, 400)]
        ra.polya_info = PolyAInfo(-1, -1, -1, -1)
        ra.chr_id = "chr1"
        ra.genomic_region = (99, 399)
        buf = io.BytesIO()
        ra.serialize(buf)
        buf.write(b"\xAB\xCD")  # sentinel: what follows the record in the stream
        for reader_name, reader in (("full reader", lambda f: ReadAssignment.deserialize(f, None)),
                                    ("abridged reader", BasicReadAssignment.deserialize_from_read_assignment)):
            buf.seek(0)
            try:
                back = reader(buf)
                rest = buf.read()
                if reader_name == "full reader":
                    got = back.isoform_matches[0].assigned_transcript if back.isoform_matches else "<no match>"
                else:
                    got = back.isoforms[0] if back.isoforms else None
                ok = (got == tid) and rest == b"\xAB\xCD"
                print("id of %d bytes, %s: transcript id %s, stream %s" %
                      (id_len, reader_name, "kept" if got == tid else "came back as %r" % (got if got is None else got[:20]),
                       "aligned" if rest == b"\xAB\xCD" else "NOT aligned (%d bytes left instead of 2)" % len(rest)))
            except Exception as e:
                ok = False
                print("id of %d bytes, %s: %s: %s" % (id_len, reader_name, type(e).__name__, str(e)[:100]))
            if not ok:
                violated = True


def part2():
    global violated
    import random
    import pysam
    shutil.rmtree(SCRATCH, ignore_errors=True)
    os.makedirs(os.path.join(SCRATCH, "home"))
    rnd = random.Random(7)
    seq = [rnd.choice("ACGT") for _ in range(6000)]
    exons = [(1000, 1200), (1500, 1700), (2000, 2300)]
    for a, b in ((1201, 1499), (1701, 1999)):
        seq[a - 1:a + 1] = "GT"
        seq[b - 2:b] = "AG"
    seq = "".join(seq)
    fasta = os.path.join(SCRATCH, "genome.fa")
    with open(fasta, "w") as f:
        f.write(">chr1\n%s\n" % seq)
    long_id = "T" * 65535
    gtf = os.path.join(SCRATCH, "annot.gtf")
    with open(gtf, "w") as f:
        f.write('chr1\ttest\tgene\t1000\t2300\t.\t+\t.\tgene_id "G1";\n')
        for tid, ex in ((long_id, exons), ("short_id", [exons[0], exons[2]])):
            f.write('chr1\ttest\ttranscript\t1000\t2300\t.\t+\t.\tgene_id "G1"; transcript_id "%s";\n' % tid)
            for e in ex:
                f.write('chr1\ttest\texon\t%d\t%d\t.\t+\t.\tgene_id "G1"; transcript_id "%s";\n' % (e[0], e[1], tid))
    bam = os.path.join(SCRATCH, "reads.bam")
    header = {"HD": {"VN": "1.0", "SO": "coordinate"}, "SQ": [{"SN": "chr1", "LN": len(seq)}]}
    with pysam.AlignmentFile(bam, "wb", header=header) as out:
        for i in range(5):
            a = pysam.AlignedSegment()
            a.query_name = "read%d" % i
            a.flag = 0
            a.reference_id = 0
            a.reference_start = 1004 + i
            a.mapping_quality = 60
            a.cigar = [(0, 1200 - (1005 + i) + 1), (3, 299), (0, 201), (3, 299), (0, 290)]
            s = seq[1004 + i:1200] + seq[1499:1700] + seq[1999:2289]
            a.query_sequence = s
            a.query_qualities = pysam.qualitystring_to_array("I" * len(s))
            out.write(a)
    pysam.index(bam)
    env = dict(os.environ, HOME=os.path.join(SCRATCH, "home"))
    out_dir = os.path.join(SCRATCH, "out")
    p = subprocess.run([PY, ISOQUANT, "--reference", fasta, "--genedb", gtf, "--complete_genedb", "--bam", bam,
                        "--data_type", "nanopore", "-o", out_dir, "--threads", "1", "--no_gzip"],
                       env=env, stdout=subprocess.PIPE, stderr=subprocess.STDOUT, text=True)
    print("isoquant.py exit code: %d" % p.returncode)
    if p.returncode != 0:
        tail = [l for l in p.stdout.splitlines() if l.strip()][-3:]
        print("  last lines of its output: " + " | ".join(x[:160] for x in tail))
        print("  (5 reads that match the transcript with the 65535-byte id exactly were saved and could not be read back)")
        violated = True
        return
    counts = os.path.join(out_dir, "OUT", "OUT.transcript_counts.tsv")
    n = None
    for l in open(counts):
        if l.startswith(long_id + "\t"):
            n = float(l.split("\t")[1])
    print("count of the transcript with the 65535-byte id: %s (5 reads match it exactly)" % n)
    if n != 5.0:
        violated = True


part1()
part2()
shutil.rmtree(SCRATCH, ignore_errors=True)
print("VIOLATED" if violated else "ok")
sys.exit(1 if violated else 0)
