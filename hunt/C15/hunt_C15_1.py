#!/venv/bin/python
"""
C15 finding 1: a run restarted from saved assignments (--read_assignments) does not reproduce the count tables of
the run that saved them: the number of unaligned reads (__not_aligned line of *.gene_counts.tsv,
*.transcript_counts.tsv, *.transcript_model_counts.tsv) is lost and becomes 0, even when the very same --bam file is
given again.

The script builds a tiny genome / annotation / BAM (with 7 unmapped reads), runs IsoQuant with --keep_tmp, then runs
the identical command line plus --read_assignments <saved prefix> into another folder and compares all output files
(the "# Command line" header is ignored).  Exit code 1 = outputs differ (property violated), 0 = identical.
"""
import os
import random
import shutil
import subprocess
import sys

import pysam

REPO = os.path.dirname(os.path.abspath(__file__))
PY = sys.executable if os.path.exists(sys.executable) else "/venv/bin/python"
W = "/tmp/huntscratch_C15/hunt1"


def make_genome(path, chroms):
    rnd = random.Random(7)
    seqs = {}
    with open(path, "w") as f:
        for name, (length, introns) in chroms.items():
            s = [rnd.choice("CGT") if i % 3 else rnd.choice("ACGT") for i in range(length)]
            for (a, b, strand) in introns:
                if strand == '+':
                    s[a - 1:a + 1] = "GT"
                    s[b - 2:b] = "AG"
                else:
                    s[a - 1:a + 1] = "CT"
                    s[b - 2:b] = "AC"
            seq = "".join(s)
            seqs[name] = seq
            f.write(">%s\n" % name)
            for i in range(0, length, 60):
                f.write(seq[i:i + 60] + "\n")
    return seqs


def make_gtf(path, genes):
    with open(path, "w") as f:
        for chr_id, gid, strand, transcripts in genes:
            gs = min(e[0][0] for e in transcripts.values())
            ge = max(e[-1][1] for e in transcripts.values())
            f.write('%s\tsrc\tgene\t%d\t%d\t.\t%s\t.\tgene_id "%s";\n' % (chr_id, gs, ge, strand, gid))
            for tid, exons in transcripts.items():
                f.write('%s\tsrc\ttranscript\t%d\t%d\t.\t%s\t.\tgene_id "%s"; transcript_id "%s";\n' %
                        (chr_id, exons[0][0], exons[-1][1], strand, gid, tid))
                for i, (s, e) in enumerate(exons):
                    f.write('%s\tsrc\texon\t%d\t%d\t.\t%s\t.\tgene_id "%s"; transcript_id "%s"; exon_number "%d";\n'
                            % (chr_id, s, e, strand, gid, tid, i + 1))


def make_bam(path, seqs, reads, unmapped=0):
    names = list(seqs.keys())
    hdr = pysam.AlignmentHeader.from_dict({"HD": {"VN": "1.6", "SO": "coordinate"},
                                           "SQ": [{"SN": n, "LN": len(seqs[n])} for n in names]})
    recs = []
    for r in reads:
        a = pysam.AlignedSegment(hdr)
        a.query_name = r["name"]
        exons = r["exons"]
        cigar, q = [], ""
        if r.get("polyt"):
            cigar.append((4, r["polyt"]))
            q += "T" * r["polyt"]
        for i, (s, e) in enumerate(exons):
            if i > 0:
                cigar.append((3, s - exons[i - 1][1] - 1))
            cigar.append((0, e - s + 1))
            q += seqs[r["chr"]][s - 1:e]
        if r.get("polya"):
            cigar.append((4, r["polya"]))
            q += "A" * r["polya"]
        a.query_sequence = q
        a.flag = (16 if r.get("reverse") else 0) | (256 if r.get("secondary") else 0)
        a.reference_id = names.index(r["chr"])
        a.reference_start = exons[0][0] - 1
        a.mapping_quality = r.get("mapq", 60)
        a.cigartuples = cigar
        a.query_qualities = pysam.qualitystring_to_array("I" * len(q))
        for k, v in r.get("tags", {}).items():
            a.set_tag(k, v)
        recs.append(a)
    recs.sort(key=lambda x: (x.reference_id, x.reference_start))
    with pysam.AlignmentFile(path, "wb", header=hdr) as out:
        for a in recs:
            out.write(a)
        for i in range(unmapped):
            a = pysam.AlignedSegment(hdr)
            a.query_name = "unmapped%d" % i
            a.query_sequence = "ACGTACGTAC"
            a.flag = 4
            a.reference_id = -1
            a.reference_start = -1
            a.mapping_quality = 0
            a.query_qualities = pysam.qualitystring_to_array("I" * 10)
            out.write(a)
    pysam.index(path)


def run_isoquant(outdir, extra):
    env = dict(os.environ)
    env["HOME"] = os.path.join(W, "home")
    os.makedirs(env["HOME"], exist_ok=True)
    cmd = [PY, os.path.join(REPO, "isoquant.py"), "-o", outdir, "--threads", "1"] + extra
    p = subprocess.run(cmd, env=env, stdout=subprocess.PIPE, stderr=subprocess.STDOUT, text=True, timeout=300)
    return p.returncode, p.stdout


def content(path):
    return [l for l in open(path) if not l.startswith("# Command line")]


def main():
    shutil.rmtree(W, ignore_errors=True)
    os.makedirs(W)
    chroms = {"chr1": (10000, [(1201, 1500, '+'), (1701, 2000, '+'), (1201, 2000, '+'), (5201, 5600, '-')])}
    seqs = make_genome(W + "/genome.fa", chroms)
    make_gtf(W + "/annot.gtf", [
        ("chr1", "G1", "+", {"T1": [(1001, 1200), (1501, 1700), (2001, 2300)], "T2": [(1001, 1200), (2001, 2300)]}),
        ("chr1", "G2", "-", {"T3": [(5001, 5200), (5601, 6000)]})])
    reads = []
    for i in range(6):
        reads.append(dict(name="fsm%d" % i, chr="chr1", exons=[(1001 + i, 1200), (1501, 1700), (2001, 2290 + i)], polya=25))
    for i in range(4):
        reads.append(dict(name="t2_%d" % i, chr="chr1", exons=[(1011, 1200), (2001, 2300)], polya=20))
    for i in range(3):
        reads.append(dict(name="neg%d" % i, chr="chr1", exons=[(5001, 5200), (5601, 5990)], polyt=22, reverse=True))
    make_bam(W + "/reads.bam", seqs, reads, unmapped=7)

    cmd = ["--reference", W + "/genome.fa", "--genedb", W + "/annot.gtf", "--complete_genedb",
           "--data_type", "nanopore", "--no_gzip", "--bam", W + "/reads.bam", "--prefix", "OUT"]
    rc, log = run_isoquant(W + "/saving_run", cmd + ["--keep_tmp"])
    if rc != 0:
        print("saving run failed unexpectedly\n" + log[-2000:])
        return 2
    save_prefix = W + "/saving_run/OUT/aux/OUT.save"
    rc, log = run_isoquant(W + "/restarted_run", cmd + ["--read_assignments", save_prefix])
    if rc != 0:
        print("restarted run failed\n" + log[-2000:])
        return 1

    d1, d2 = W + "/saving_run/OUT", W + "/restarted_run/OUT"
    bad = []
    for f in sorted(os.listdir(d1)):
        if not os.path.isfile(os.path.join(d1, f)):
            continue
        if not os.path.exists(os.path.join(d2, f)):
            bad.append("%s is missing in the restarted run" % f)
            continue
        a, b = content(os.path.join(d1, f)), content(os.path.join(d2, f))
        if a != b:
            diff = [(x.rstrip(), y.rstrip()) for x, y in zip(a, b) if x != y][:3]
            bad.append("%s differs: %s" % (f, "; ".join("saving run %r vs restarted run %r" % d for d in diff)))
    if bad:
        print("VIOLATION: the run restarted with --read_assignments does not reproduce the saving run:")
        for b in bad:
            print("  " + b)
        return 1
    print("OK: restarted run reproduces all outputs")
    return 0


if __name__ == "__main__":
    rc = main()
    shutil.rmtree(W, ignore_errors=True)
    sys.exit(rc)
