#!/venv/bin/python
"""
C15 finding 4 (low impact): the penalty of a matched isoform does not survive the round trip through the intermediate
file.  IsoformMatch.serialize stores int(penalty_score * 2**20) (truncation, 4 bytes) and deserialize divides by 2**20,
so every penalty that is not a multiple of 2**-20 changes - including the penalties the assigner itself produces
(event_subtype_cost: 0.1 for intron_shift, 0.6 for intron_retention, 0.7 for incomplete_intron_retention, ...).

Calls the unchanged repository code directly.  Exit code 1 = some penalty changed, 0 = all penalties unchanged.
"""
import io
import os
import sys

sys.path.insert(0, os.path.dirname(os.path.abspath(__file__)))
from src.isoform_assignment import (ReadAssignment, ReadAssignmentType, IsoformMatch, MatchClassification, MatchEvent,
                                    MatchEventSubtype, event_subtype_cost)
from src.polya_finder import PolyAInfo

bad = []
for subtype in (MatchEventSubtype.intron_shift, MatchEventSubtype.intron_retention,
                MatchEventSubtype.incomplete_intron_retention_left, MatchEventSubtype.exon_merge_known):
    penalty = 0.0 + event_subtype_cost[subtype] * 1  # exactly what LongReadAssigner.select_best_among_inconsistent computes
    match = IsoformMatch(MatchClassification.novel_in_catalog, "G1", "T1", MatchEvent(subtype, (0, 0), (0, 0)), "+",
                         penalty_score=penalty)
    a = ReadAssignment("read1", ReadAssignmentType.inconsistent, match)
    a.exons = [(1001, 1200), (1501, 1700)]
    a.corrected_exons = list(a.exons)
    a.polya_info = PolyAInfo(-1, -1, -1, -1)
    a.chr_id = "chr1"
    buf = io.BytesIO()
    a.serialize(buf)
    buf.seek(0)
    b = ReadAssignment.deserialize(buf, None)
    assert buf.read() == b""
    restored = b.isoform_matches[0].penalty_score
    if restored != penalty:
        bad.append("%s: penalty %r was read back as %r" % (subtype.name, penalty, restored))

if bad:
    print("VIOLATION: penalties of matched isoforms are changed by the write/read round trip:")
    for l in bad:
        print("  " + l)
    sys.exit(1)
print("OK: penalties unchanged")
sys.exit(0)
