#!/usr/bin/env python3
"""
C03 hunt, finding 2: a novel mono-exonic transcript is written with an exon end behind the end of the chromosome.

chr1 is 5000 bp long.  Ten unspliced plus-strand reads are aligned up to position 4998; their soft-clipped tail
consists of 5 non-A bases followed by the polyA tail (very common for noisy reads: the aligner clips the last few
bases together with the tail).  PolyAFinder.find_polya_tail reports the polyA position as
reference_end + <number of clipped bases before the tail> = 5003, and generate_monoexon_from_clustered uses that
position as the 3' end of the novel mono-exonic model without clamping it to the chromosome length
(the polyT counterpart is clamped with max(1, ...)).  validate_exons() in the GTF printer does not know the
chromosome length either.

pacbio_ccs data type is used because it reports novel unspliced transcripts by default
(for nanopore add --report_novel_unspliced true, same result).

Exit code 1 = property violated, 0 = fine.
"""
import os
import random
import shutil
import subprocess
import sys

import pysam

REPO = os.path.dirname(os.path.abspath(__file__))
PY = "/venv/bin/python" if os.path.exists("/venv/bin/python") else sys.executable
WD = "/tmp/huntscratch_C03/demo2"
CHR_LEN = 5000
READ_END = 4998          # 1-based position of the last aligned base
JUNK = "CGTCG"           # clipped bases preceding the polyA tail
REF_T = [(500, 700), (1000, 1300)]   # an unrelated annotated gene, so that extended_annotation.gtf is produced as well


def build_inputs():
    shutil.rmtree(WD, ignore_errors=True)
    os.makedirs(os.path.join(WD, "home"))
    rnd = random.Random(7)
    seq = [rnd.choice("ACGT") for _ in range(CHR_LEN)]
    seq[700:702] = "GT"
    seq[997:999] = "AG"
    seq = "".join(seq)
    with open(os.path.join(WD, "genome.fa"), "w") as f:
        f.write(">chr1\n")
        for i in range(0, CHR_LEN, 60):
            f.write(seq[i:i + 60] + "\n")
    with open(os.path.join(WD, "annot.gtf"), "w") as f:
        f.write('chr1\tsrc\tgene\t500\t1300\t.\t+\t.\tgene_id "G1";\n')
        f.write('chr1\tsrc\ttranscript\t500\t1300\t.\t+\t.\tgene_id "G1"; transcript_id "T1";\n')
        for s, e in REF_T:
            f.write('chr1\tsrc\texon\t%d\t%d\t.\t+\t.\tgene_id "G1"; transcript_id "T1";\n' % (s, e))
    header = {"HD": {"VN": "1.0", "SO": "coordinate"}, "SQ": [{"SN": "chr1", "LN": CHR_LEN}]}
    bam = os.path.join(WD, "reads.bam")
    with pysam.AlignmentFile(bam, "wb", header=header) as f:
        for i in range(10):
            start = 3000 + i
            a = pysam.AlignedSegment()
            a.query_name = "r%d" % i
            read_seq = seq[start - 1:READ_END] + JUNK + "A" * 30
            a.query_sequence = read_seq
            a.flag = 0
            a.reference_id = 0
            a.reference_start = start - 1
            a.mapping_quality = 60
            a.cigar = [(0, READ_END - start + 1), (4, len(JUNK) + 30)]
            a.query_qualities = pysam.qualitystring_to_array("I" * len(read_seq))
            f.write(a)
    pysam.index(bam)


def main():
    build_inputs()
    out = os.path.join(WD, "out")
    cmd = [PY, os.path.join(REPO, "isoquant.py"), "--reference", os.path.join(WD, "genome.fa"),
           "--genedb", os.path.join(WD, "annot.gtf"), "--complete_genedb", "--bam", os.path.join(WD, "reads.bam"),
           "--data_type", "pacbio_ccs", "-o", out, "--threads", "1", "--no_gzip"]
    p = subprocess.run(cmd, env=dict(os.environ, HOME=os.path.join(WD, "home")),
                       stdout=subprocess.PIPE, stderr=subprocess.STDOUT, text=True)
    if p.returncode != 0:
        print(p.stdout[-2000:])
        print("IsoQuant failed, cannot judge")
        return 2
    bad = 0
    for name in ("transcript_models", "extended_annotation"):
        for line in open(os.path.join(out, "OUT", "OUT.%s.gtf" % name)):
            if line.startswith("#"):
                continue
            v = line.rstrip("\n").split("\t")
            s, e = int(v[3]), int(v[4])
            if not (1 <= s <= e <= CHR_LEN):
                bad += 1
                print("%s.gtf: %s %d-%d lies outside chr1 (length %d): %s" %
                      (name, v[2], s, e, CHR_LEN, v[8].split(" exon")[0]))
    shutil.rmtree(WD, ignore_errors=True)
    if bad:
        print("PROPERTY C03 VIOLATED: %d record(s) with end > chromosome length" % bad)
        return 1
    print("no violation")
    return 0


if __name__ == "__main__":
    sys.exit(main())
