#!/venv/bin/python
"""C03, second pass, finding 1.

A reference annotation in GFF3 format (documented input: "gene database in gffutils DB format or GTF/GFF format")
whose non-coding transcripts use the standard GFF3/SO feature types of Ensembl and NCBI (lnc_RNA below a gene or
ncRNA_gene record) loses these reference transcripts: extended_annotation.gtf does not contain them, and the very
same exon chains come back as *novel* transcripts of *novel* genes in both GTF files.

Exit code 1 = property violated, 0 = fine.
"""
import os
import shutil
import subprocess
import sys
import random

import pysam

REPO = os.path.dirname(os.path.abspath(__file__))
WD = "/tmp/hunt2scratch_C03/demo1"
PY = "/venv/bin/python"


def main():
    shutil.rmtree(WD, ignore_errors=True)
    os.makedirs(os.path.join(WD, "home"))
    rnd = random.Random(9)
    L = 20000
    seq = [rnd.choice("CCGGTA") for _ in range(L)]

    def plant(introns, strand):
        for s, e in introns:
            if strand == '+':
                seq[s - 1:s + 1] = "GT"
                seq[e - 2:e] = "AG"
            else:
                seq[s - 1:s + 1] = "CT"
                seq[e - 2:e] = "AC"

    mrna = [(1000, 1200), (2000, 2200), (3000, 3200), (4000, 4300)]        # gene:G1 / mRNA transcript:T1 (+)
    lnc_e = [(8000, 8200), (9000, 9300), (10000, 10400)]                   # ncRNA_gene gene:G2 / lnc_RNA transcript:T2 (-)
    lnc_n = [(13000, 13300), (14000, 14200), (15000, 15500)]               # gene gene:G3 / lnc_RNA transcript:T3 (+)
    for ex, strand in ((mrna, '+'), (lnc_e, '-'), (lnc_n, '+')):
        plant([(ex[i][1] + 1, ex[i + 1][0] - 1) for i in range(len(ex) - 1)], strand)
    seq = "".join(seq)
    fasta = os.path.join(WD, "genome.fa")
    with open(fasta, "w") as f:
        f.write(">1\n")
        for i in range(0, L, 60):
            f.write(seq[i:i + 60] + "\n")

    gff = os.path.join(WD, "annot.gff3")
    with open(gff, "w") as f:
        f.write("##gff-version 3\n")
        f.write("1\tensembl\tgene\t1000\t4300\t.\t+\t.\tID=gene:G1;biotype=protein_coding\n")
        f.write("1\tensembl\tmRNA\t1000\t4300\t.\t+\t.\tID=transcript:T1;Parent=gene:G1\n")
        for e in mrna:
            f.write("1\tensembl\texon\t%d\t%d\t.\t+\t.\tParent=transcript:T1\n" % e)
        f.write("1\tensembl\tncRNA_gene\t8000\t10400\t.\t-\t.\tID=gene:G2;biotype=lncRNA\n")
        f.write("1\tensembl\tlnc_RNA\t8000\t10400\t.\t-\t.\tID=transcript:T2;Parent=gene:G2\n")
        for e in lnc_e:
            f.write("1\tensembl\texon\t%d\t%d\t.\t-\t.\tParent=transcript:T2\n" % e)
        f.write("1\tRefSeq\tgene\t13000\t15500\t.\t+\t.\tID=gene:G3;gene_biotype=lncRNA\n")
        f.write("1\tRefSeq\tlnc_RNA\t13000\t15500\t.\t+\t.\tID=transcript:T3;Parent=gene:G3\n")
        for e in lnc_n:
            f.write("1\tRefSeq\texon\t%d\t%d\t.\t+\t.\tParent=transcript:T3\n" % e)

    bam = os.path.join(WD, "reads.bam")
    header = {"HD": {"VN": "1.0", "SO": "coordinate"}, "SQ": [{"SN": "1", "LN": L}]}
    recs = []
    for name, ex, strand in (("m", mrna, '+'), ("e", lnc_e, '-'), ("n", lnc_n, '+')):
        for i in range(10):
            s = "".join(seq[a - 1:b] for a, b in ex)
            cigar = []
            for j, (a, b) in enumerate(ex):
                if j:
                    cigar.append((3, a - ex[j - 1][1] - 1))
                cigar.append((0, b - a + 1))
            if strand == '+':
                s, cigar = s + "A" * 30, cigar + [(4, 30)]
            else:
                s, cigar = "T" * 30 + s, [(4, 30)] + cigar
            recs.append((ex[0][0] - 1, "%s%d" % (name, i), s, cigar, strand == '-'))
    recs.sort()
    with pysam.AlignmentFile(bam, "wb", header=header) as out:
        for pos, name, s, cigar, rev in recs:
            a = pysam.AlignedSegment()
            a.query_name, a.query_sequence, a.flag = name, s, (16 if rev else 0)
            a.reference_id, a.reference_start, a.mapping_quality, a.cigar = 0, pos, 60, cigar
            a.query_qualities = pysam.qualitystring_to_array("I" * len(s))
            out.write(a)
    pysam.index(bam)

    outdir = os.path.join(WD, "out")
    env = dict(os.environ, HOME=os.path.join(WD, "home"), PYTHONWARNINGS="ignore")
    cmd = [PY, os.path.join(REPO, "isoquant.py"), "--reference", fasta, "--genedb", gff, "--bam", bam,
           "--data_type", "nanopore", "-o", outdir, "--threads", "1", "--no_gzip"]
    p = subprocess.run(cmd, env=env, stdout=subprocess.PIPE, stderr=subprocess.STDOUT, text=True, timeout=300)
    if p.returncode != 0:
        print("IsoQuant failed:\n" + p.stdout[-2000:])
        return 2
    warnings = [l for l in p.stdout.split("\n") if "WARNING" in l or "ERROR" in l]

    def transcripts(path):
        res = {}
        for l in open(path):
            if l.startswith("#"):
                continue
            v = l.rstrip("\n").split("\t")
            if v[2] == "exon":
                tid = v[8].split('transcript_id "')[1].split('"')[0]
                gid = v[8].split('gene_id "')[1].split('"')[0]
                res.setdefault(tid, (gid, v[6], []))[2].append((int(v[3]), int(v[4])))
        return {t: (g, s, sorted(e)) for t, (g, s, e) in res.items()}

    ea = transcripts(os.path.join(outdir, "OUT", "OUT.extended_annotation.gtf"))
    tm = transcripts(os.path.join(outdir, "OUT", "OUT.transcript_models.gtf"))
    reference = {"transcript:T1": ("gene:G1", '+', mrna), "transcript:T2": ("gene:G2", '-', lnc_e),
                 "transcript:T3": ("gene:G3", '+', lnc_n)}
    problems = []
    for tid, rec in reference.items():
        if tid not in ea:
            problems.append("reference transcript %s (%s) is missing from extended_annotation.gtf" % (tid, rec[0]))
        elif ea[tid] != rec:
            problems.append("reference transcript %s differs in extended_annotation.gtf: %s" % (tid, ea[tid]))
    for label, d in (("extended_annotation.gtf", ea), ("transcript_models.gtf", tm)):
        for tid, rec in d.items():
            if tid in reference:
                continue
            for rid, rrec in reference.items():
                if rec[1:] == rrec[1:]:
                    problems.append("%s: exon chain and strand of reference transcript %s are reported as novel "
                                    "transcript %s of gene %s" % (label, rid, tid, rec[0]))
    print("warnings/errors printed by IsoQuant: %s" % (warnings if warnings else "none"))
    if problems:
        print("C03 VIOLATED:")
        for x in problems:
            print("  " + x)
        return 1
    print("extended_annotation.gtf contains every reference transcript")
    return 0


if __name__ == "__main__":
    sys.exit(main())
