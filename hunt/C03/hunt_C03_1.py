#!/usr/bin/env python3
"""
C03 hunt, finding 1: gene record in transcript_models.gtf does not contain all transcripts attributed to it
when the same reference gene is seen in more than one read region of a chromosome.

Gene G1 (chr1:1000-17300, +) has two annotated isoforms, T1 (1000-3300) and T2 (15000-17300).
Read island A supports T1 exactly.  Read island B (no read connects it to island A) supports a novel isoform
that shares intron 15201-15999 with T2 (hence it is attributed to G1) and ends at 17600, i.e. behind the annotated gene end.
GFFPrinter prints the record of G1 while dumping island A (1000-17300) and never again (printed_gene_ids),
so the novel transcript 14500-17600 of island B sticks out of its gene record.

Exit code 1 = property violated, 0 = fine.
"""
import os
import random
import shutil
import subprocess
import sys

import pysam

REPO = os.path.dirname(os.path.abspath(__file__))
PY = "/venv/bin/python" if os.path.exists("/venv/bin/python") else sys.executable
WD = "/tmp/huntscratch_C03/demo1"
CHR_LEN = 30000

T1 = [(1000, 1200), (2000, 2200), (3000, 3300)]
T2 = [(15000, 15200), (16000, 16200), (17000, 17300)]
NOVEL = [(14500, 15200), (16000, 16200), (16500, 16600), (17000, 17600)]


def introns(exons):
    return [(exons[i][1] + 1, exons[i + 1][0] - 1) for i in range(len(exons) - 1)]


def build_inputs():
    shutil.rmtree(WD, ignore_errors=True)
    os.makedirs(os.path.join(WD, "home"))
    rnd = random.Random(1)
    seq = [rnd.choice("ACGT") for _ in range(CHR_LEN)]
    for s, e in introns(T1) + introns(T2) + introns(NOVEL):   # canonical GT..AG on the plus strand
        seq[s - 1:s + 1] = "GT"
        seq[e - 2:e] = "AG"
    seq = "".join(seq)
    with open(os.path.join(WD, "genome.fa"), "w") as f:
        f.write(">chr1\n")
        for i in range(0, CHR_LEN, 60):
            f.write(seq[i:i + 60] + "\n")
    with open(os.path.join(WD, "annot.gtf"), "w") as f:
        f.write('chr1\tsrc\tgene\t1000\t17300\t.\t+\t.\tgene_id "G1";\n')
        for tid, exons in (("T1", T1), ("T2", T2)):
            f.write('chr1\tsrc\ttranscript\t%d\t%d\t.\t+\t.\tgene_id "G1"; transcript_id "%s";\n' %
                    (exons[0][0], exons[-1][1], tid))
            for s, e in exons:
                f.write('chr1\tsrc\texon\t%d\t%d\t.\t+\t.\tgene_id "G1"; transcript_id "%s";\n' % (s, e, tid))
    header = {"HD": {"VN": "1.0", "SO": "coordinate"}, "SQ": [{"SN": "chr1", "LN": CHR_LEN}]}
    records = []
    for name, exons in (("a", T1), ("b", NOVEL)):
        for i in range(10):
            a = pysam.AlignedSegment()
            a.query_name = "%s%d" % (name, i)
            read_seq, cigar = "", []
            for k, (s, e) in enumerate(exons):
                if k:
                    cigar.append((3, s - exons[k - 1][1] - 1))
                cigar.append((0, e - s + 1))
                read_seq += seq[s - 1:e]
            read_seq += "A" * 30
            cigar.append((4, 30))
            a.query_sequence = read_seq
            a.flag = 0
            a.reference_id = 0
            a.reference_start = exons[0][0] - 1
            a.mapping_quality = 60
            a.cigar = cigar
            a.query_qualities = pysam.qualitystring_to_array("I" * len(read_seq))
            records.append(a)
    records.sort(key=lambda r: r.reference_start)
    bam = os.path.join(WD, "reads.bam")
    with pysam.AlignmentFile(bam, "wb", header=header) as f:
        for r in records:
            f.write(r)
    pysam.index(bam)


def parse(gtf):
    genes, transcripts = {}, {}
    for line in open(gtf):
        if line.startswith("#"):
            continue
        v = line.rstrip("\n").split("\t")
        attrs = dict((x.strip().split(" ", 1)[0], x.strip().split(" ", 1)[1].strip('"'))
                     for x in v[8].split(";") if x.strip())
        if v[2] == "gene":
            genes.setdefault(attrs["gene_id"], []).append((int(v[3]), int(v[4])))
        elif v[2] == "transcript":
            transcripts[attrs["transcript_id"]] = (attrs["gene_id"], int(v[3]), int(v[4]))
    return genes, transcripts


def main():
    build_inputs()
    out = os.path.join(WD, "out")
    cmd = [PY, os.path.join(REPO, "isoquant.py"), "--reference", os.path.join(WD, "genome.fa"),
           "--genedb", os.path.join(WD, "annot.gtf"), "--complete_genedb", "--bam", os.path.join(WD, "reads.bam"),
           "--data_type", "nanopore", "-o", out, "--threads", "1", "--no_gzip"]
    p = subprocess.run(cmd, env=dict(os.environ, HOME=os.path.join(WD, "home")),
                       stdout=subprocess.PIPE, stderr=subprocess.STDOUT, text=True)
    if p.returncode != 0:
        print(p.stdout[-2000:])
        print("IsoQuant failed, cannot judge")
        return 2
    bad = 0
    for name in ("transcript_models", "extended_annotation"):
        genes, transcripts = parse(os.path.join(out, "OUT", "OUT.%s.gtf" % name))
        for tid, (gid, s, e) in sorted(transcripts.items()):
            recs = genes.get(gid, [])
            if len(recs) != 1:
                print("%s: gene %s has %d records" % (name, gid, len(recs)))
                bad += 1
                continue
            gs, ge = recs[0]
            status = "ok" if gs <= s and e <= ge else "VIOLATION: transcript is not contained in its gene record"
            print("%s.gtf: gene %s %d-%d, transcript %s %d-%d: %s" % (name, gid, gs, ge, tid, s, e, status))
            if status != "ok":
                bad += 1
    shutil.rmtree(WD, ignore_errors=True)
    if bad:
        print("PROPERTY C03 VIOLATED: %d transcript(s) stick out of the (single) record of their gene" % bad)
        return 1
    print("no violation")
    return 0


if __name__ == "__main__":
    sys.exit(main())
