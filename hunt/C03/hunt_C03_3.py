#!/usr/bin/env python3
"""
C03 hunt, finding 3 (crash type): with a perfectly legal --prefix that happens to be a substring of an output file
suffix (e.g. "t", "s", "a", "gtf", "models", "extended" ...) the per-chromosome GTFs are never merged:
file_utils.merge_file_list() builds the per-chromosome file names with rreplace(fname, label, label + "_" + chr),
which replaces the LAST occurrence of the label in the path - for "t.transcript_models.gtf" that is the final "t" of
"gtf", giving "t.transcript_models.gt_chr1f".  merge_files() silently skips the non-existing file and then dies in
os.remove().  What is left in the output folder is a header-only transcript_models.gtf / extended_annotation.gtf
(no reference transcript at all), next to the orphaned t_chr1.* files.

Exit code 1 = outputs incomplete (property violated / run crashed), 0 = fine.
"""
import os
import random
import shutil
import subprocess
import sys

import pysam

REPO = os.path.dirname(os.path.abspath(__file__))
PY = "/venv/bin/python" if os.path.exists("/venv/bin/python") else sys.executable
WD = "/tmp/huntscratch_C03/demo3"
CHR_LEN = 30000

T1 = [(1000, 1200), (2000, 2200), (3000, 3300)]
T2 = [(15000, 15200), (16000, 16200), (17000, 17300)]
NOVEL = [(14500, 15200), (16000, 16200), (16500, 16600), (17000, 17600)]


def introns(exons):
    return [(exons[i][1] + 1, exons[i + 1][0] - 1) for i in range(len(exons) - 1)]


def build_inputs():
    shutil.rmtree(WD, ignore_errors=True)
    os.makedirs(os.path.join(WD, "home"))
    rnd = random.Random(1)
    seq = [rnd.choice("ACGT") for _ in range(CHR_LEN)]
    for s, e in introns(T1) + introns(T2) + introns(NOVEL):   # canonical GT..AG on the plus strand
        seq[s - 1:s + 1] = "GT"
        seq[e - 2:e] = "AG"
    seq = "".join(seq)
    with open(os.path.join(WD, "genome.fa"), "w") as f:
        f.write(">chr1\n")
        for i in range(0, CHR_LEN, 60):
            f.write(seq[i:i + 60] + "\n")
    with open(os.path.join(WD, "annot.gtf"), "w") as f:
        f.write('chr1\tsrc\tgene\t1000\t17300\t.\t+\t.\tgene_id "G1";\n')
        for tid, exons in (("T1", T1), ("T2", T2)):
            f.write('chr1\tsrc\ttranscript\t%d\t%d\t.\t+\t.\tgene_id "G1"; transcript_id "%s";\n' %
                    (exons[0][0], exons[-1][1], tid))
            for s, e in exons:
                f.write('chr1\tsrc\texon\t%d\t%d\t.\t+\t.\tgene_id "G1"; transcript_id "%s";\n' % (s, e, tid))
    header = {"HD": {"VN": "1.0", "SO": "coordinate"}, "SQ": [{"SN": "chr1", "LN": CHR_LEN}]}
    records = []
    for name, exons in (("a", T1), ("b", NOVEL)):
        for i in range(10):
            a = pysam.AlignedSegment()
            a.query_name = "%s%d" % (name, i)
            read_seq, cigar = "", []
            for k, (s, e) in enumerate(exons):
                if k:
                    cigar.append((3, s - exons[k - 1][1] - 1))
                cigar.append((0, e - s + 1))
                read_seq += seq[s - 1:e]
            read_seq += "A" * 30
            cigar.append((4, 30))
            a.query_sequence = read_seq
            a.flag = 0
            a.reference_id = 0
            a.reference_start = exons[0][0] - 1
            a.mapping_quality = 60
            a.cigar = cigar
            a.query_qualities = pysam.qualitystring_to_array("I" * len(read_seq))
            records.append(a)
    records.sort(key=lambda r: r.reference_start)
    bam = os.path.join(WD, "reads.bam")
    with pysam.AlignmentFile(bam, "wb", header=header) as f:
        for r in records:
            f.write(r)
    pysam.index(bam)


def parse(gtf):
    genes, transcripts = {}, {}
    for line in open(gtf):
        if line.startswith("#"):
            continue
        v = line.rstrip("\n").split("\t")
        attrs = dict((x.strip().split(" ", 1)[0], x.strip().split(" ", 1)[1].strip('"'))
                     for x in v[8].split(";") if x.strip())
        if v[2] == "gene":
            genes.setdefault(attrs["gene_id"], []).append((int(v[3]), int(v[4])))
        elif v[2] == "transcript":
            transcripts[attrs["transcript_id"]] = (attrs["gene_id"], int(v[3]), int(v[4]))
    return genes, transcripts



def main():
    build_inputs()
    out = os.path.join(WD, "out")
    prefix = "t"
    cmd = [PY, os.path.join(REPO, "isoquant.py"), "--reference", os.path.join(WD, "genome.fa"),
           "--genedb", os.path.join(WD, "annot.gtf"), "--complete_genedb", "--bam", os.path.join(WD, "reads.bam"),
           "--data_type", "nanopore", "-o", out, "--threads", "1", "--no_gzip", "--prefix", prefix]
    p = subprocess.run(cmd, env=dict(os.environ, HOME=os.path.join(WD, "home")),
                       stdout=subprocess.PIPE, stderr=subprocess.STDOUT, text=True)
    print("IsoQuant exit code with --prefix %s: %d" % (prefix, p.returncode))
    if p.returncode != 0:
        print("\n".join(p.stdout.strip().split("\n")[-4:]))
    bad = 0
    for name in ("transcript_models", "extended_annotation"):
        fname = os.path.join(out, prefix, "%s.%s.gtf" % (prefix, name))
        if not os.path.exists(fname):
            print("%s is missing" % fname)
            bad += 1
            continue
        genes, transcripts = parse(fname)
        print("%s.%s.gtf: %d gene records, %d transcript records: %s" %
              (prefix, name, len(genes), len(transcripts), sorted(transcripts)))
        if name == "extended_annotation":
            for tid in ("T1", "T2"):
                if tid not in transcripts:
                    print("  reference transcript %s is missing from the extended annotation" % tid)
                    bad += 1
        elif "T1" not in transcripts:
            print("  T1 (supported by 10 full-length reads) is missing from transcript_models.gtf")
            bad += 1
    print("left-over per-chromosome files:", sorted(f for f in os.listdir(os.path.join(out, prefix)) if "_chr1." in f and f.endswith(".gtf")))
    shutil.rmtree(WD, ignore_errors=True)
    if bad or p.returncode != 0:
        print("PROPERTY C03 VIOLATED (crash): final GTFs are incomplete for --prefix %s" % prefix)
        return 1
    print("no violation")
    return 0


if __name__ == "__main__":
    sys.exit(main())
