#!/venv/bin/python
"""C03, second pass, finding 2 (sequence of runs).

Run 1 writes <out>/OUT/OUT.extended_annotation.gtf (reference annotation given).  Run 2 re-uses the same output
folder with --force ("force to overwrite the previous run") but without a reference annotation.  Run 2 rewrites
OUT.transcript_models.gtf and leaves the OUT.extended_annotation.gtf of run 1 in place: after a successful run the
output folder holds an extended annotation whose novel transcripts are not the novel transcripts of
transcript_models.gtf (other ids, and -- with other reads -- other coordinates).

Exit code 1 = the two GTF files of the output folder are inconsistent, 0 = fine.
"""
import os
import random
import shutil
import subprocess
import sys

import pysam

REPO = os.path.dirname(os.path.abspath(__file__))
WD = "/tmp/hunt2scratch_C03/demo2"
PY = "/venv/bin/python"


def write_bam(path, seq, L, read_sets):
    header = {"HD": {"VN": "1.0", "SO": "coordinate"}, "SQ": [{"SN": "chr1", "LN": L}]}
    recs = []
    for name, ex in read_sets:
        for i in range(10):
            s = "".join(seq[a - 1:b] for a, b in ex) + "A" * 30
            cigar = []
            for j, (a, b) in enumerate(ex):
                if j:
                    cigar.append((3, a - ex[j - 1][1] - 1))
                cigar.append((0, b - a + 1))
            recs.append((ex[0][0] - 1, "%s%d" % (name, i), s, cigar + [(4, 30)]))
    recs.sort()
    with pysam.AlignmentFile(path, "wb", header=header) as out:
        for pos, name, s, cigar in recs:
            a = pysam.AlignedSegment()
            a.query_name, a.query_sequence, a.flag = name, s, 0
            a.reference_id, a.reference_start, a.mapping_quality, a.cigar = 0, pos, 60, cigar
            a.query_qualities = pysam.qualitystring_to_array("I" * len(s))
            out.write(a)
    pysam.index(path)


def novel_transcripts(path):
    res = {}
    for l in open(path):
        if l.startswith("#"):
            continue
        v = l.rstrip("\n").split("\t")
        if v[2] == "exon":
            tid = v[8].split('transcript_id "')[1].split('"')[0]
            if tid.startswith("transcript"):
                res.setdefault(tid, []).append((int(v[3]), int(v[4])))
    return {t: sorted(e) for t, e in res.items()}


def main():
    shutil.rmtree(WD, ignore_errors=True)
    os.makedirs(os.path.join(WD, "home"))
    rnd = random.Random(4)
    L = 12000
    seq = [rnd.choice("CCGGTA") for _ in range(L)]
    ex = [(1000, 1200), (2000, 2200), (3000, 3200), (4000, 4300), (5000, 5400)]
    for i in range(len(ex) - 1):
        for j in range(i + 1, len(ex)):
            s, e = ex[i][1] + 1, ex[j][0] - 1
            seq[s - 1:s + 1] = "GT"
            seq[e - 2:e] = "AG"
    seq = "".join(seq)
    fasta = os.path.join(WD, "genome.fa")
    with open(fasta, "w") as f:
        f.write(">chr1\n")
        for i in range(0, L, 60):
            f.write(seq[i:i + 60] + "\n")
    gtf = os.path.join(WD, "annot.gtf")
    with open(gtf, "w") as f:
        f.write('chr1\tT\tgene\t1000\t5400\t.\t+\t.\tgene_id "G1";\n')
        f.write('chr1\tT\ttranscript\t1000\t5400\t.\t+\t.\tgene_id "G1"; transcript_id "T1";\n')
        for e in ex:
            f.write('chr1\tT\texon\t%d\t%d\t.\t+\t.\tgene_id "G1"; transcript_id "T1";\n' % e)
    bam1 = os.path.join(WD, "sample1.bam")
    write_bam(bam1, seq, L, [("k", ex), ("n", [ex[0], ex[2], ex[3], ex[4]])])
    bam2 = os.path.join(WD, "sample2.bam")
    write_bam(bam2, seq, L, [("k", ex), ("p", [ex[0], ex[1], ex[4]]), ("q", [ex[0], ex[1], ex[3], ex[4]])])

    outdir = os.path.join(WD, "out")
    env = dict(os.environ, HOME=os.path.join(WD, "home"), PYTHONWARNINGS="ignore")
    base = [PY, os.path.join(REPO, "isoquant.py"), "--reference", fasta, "--data_type", "nanopore", "-o", outdir,
            "--threads", "1", "--no_gzip"]
    for cmd in (base + ["--bam", bam1, "--genedb", gtf, "--complete_genedb"],
                base + ["--bam", bam2, "--force"]):
        p = subprocess.run(cmd, env=env, stdout=subprocess.PIPE, stderr=subprocess.STDOUT, text=True, timeout=300)
        if p.returncode != 0:
            print("IsoQuant failed:\n" + p.stdout[-2000:])
            return 2
    tm_path = os.path.join(outdir, "OUT", "OUT.transcript_models.gtf")
    ea_path = os.path.join(outdir, "OUT", "OUT.extended_annotation.gtf")
    if not os.path.exists(ea_path):
        print("no extended_annotation.gtf is left in the output folder of the annotation-free run")
        return 0
    tm, ea = novel_transcripts(tm_path), novel_transcripts(ea_path)
    print("command line recorded in transcript_models.gtf:    ..." + open(tm_path).readlines()[1].strip()[-60:])
    print("command line recorded in extended_annotation.gtf:  ..." + open(ea_path).readlines()[1].strip()[-60:])
    if tm != ea:
        print("C03 VIOLATED in the output folder after the second (successful, --force) run:")
        print("  novel transcripts of transcript_models.gtf:   %s" % tm)
        print("  novel transcripts of extended_annotation.gtf: %s" % ea)
        return 1
    print("both files hold the same novel transcripts")
    return 0


if __name__ == "__main__":
    sys.exit(main())
