#!/usr/bin/env python3
"""
C03, finding 2: with a GTF that has no gene records (plain GTF2: transcript/exon lines only, e.g. the refGene/ncbiRefSeq
GTFs distributed by UCSC, StringTie-like files) and uses one gene_id for loci on two different sequences (PAR genes on
chrX/chrY, a gene and its copy on an alt contig, multi-copy families named by gene symbol), the reference transcripts
of one locus are reported on the OTHER sequence: extended_annotation.gtf lists them with the right ID and exon numbers but
under the wrong chromosome, the gene record carries a strand that differs
from the strand of its transcripts, and the reads of the robbed locus are turned into "novel" transcripts.

IsoQuant's own GTF check refuses the same annotation when it has gene records ("Duplicated gene id ... Input GTF seems to
be corrupted"), but accepts this one without a warning.  BORDERLINE: GTF2.2 asks for a gene_id that is unique per locus, so
one may call the input invalid; docs/ do not state any such requirement and the file is accepted silently.

Exit code 1 = a transcript reported under a reference ID is on another chromosome / out of the chromosome / under a gene
record of another strand; 0 = fine.
"""
import os
import random
import re
import shutil
import subprocess
import sys

import pysam

HERE = os.path.dirname(os.path.abspath(__file__))
ISOQUANT = os.path.join(HERE, "isoquant.py")
PYTHON = "/venv/bin/python" if os.path.exists("/venv/bin/python") else sys.executable
WD = "/tmp/hunt3scratch_C03/demo2"


def make_seq(n, rnd):
    s = "".join(rnd.choice("ACGT") for _ in range(n))
    s = re.sub("A{5,}", lambda m: ("ACG" * len(m.group()))[:len(m.group())], s)
    s = re.sub("T{5,}", lambda m: ("TCG" * len(m.group()))[:len(m.group())], s)
    return list(s)


def main():
    if os.path.exists(WD):
        shutil.rmtree(WD)
    os.makedirs(os.path.join(WD, "home"))
    rnd = random.Random(5)
    # (gene_id, sequence, strand, transcripts)
    genes = [
        ("SHOX", "chrX", "+", {"NM_1": [(8000, 8200), (8500, 8700), (9000, 9300), (9800, 10200)],
                               "NM_2": [(8000, 8200), (9000, 9300), (9800, 10200)]}),
        ("OTHER", "chrX", "-", {"NM_3": [(2000, 2300), (2800, 3000), (3500, 3900)]}),
        # the copy of the gene on another sequence, same gene_id, own transcript ids (as in UCSC files: NM_1_2)
        ("SHOX", "chrY", "-", {"NM_1_2": [(1000, 1300), (1600, 1800), (2200, 2600)]}),
    ]
    genome = {"chrX": make_seq(12000, rnd), "chrY": make_seq(5000, rnd)}
    for gid, c, strand, trs in genes:
        for ex in trs.values():
            for i in range(len(ex) - 1):
                s, e = ex[i][1] + 1, ex[i + 1][0] - 1
                left, right = ("GT", "AG") if strand == "+" else ("CT", "AC")
                genome[c][s - 1:s + 1] = left
                genome[c][e - 2:e] = right
    genome = {c: "".join(s) for c, s in genome.items()}
    chr_len = {c: len(s) for c, s in genome.items()}
    fasta = os.path.join(WD, "genome.fa")
    with open(fasta, "w") as f:
        for c, s in genome.items():
            f.write(">%s\n" % c)
            for i in range(0, len(s), 60):
                f.write(s[i:i + 60] + "\n")

    gtf = os.path.join(WD, "refGene.gtf")
    with open(gtf, "w") as f:
        for gid, c, strand, trs in genes:
            for tid, ex in trs.items():
                f.write('%s\trefGene\ttranscript\t%d\t%d\t.\t%s\t.\tgene_id "%s"; transcript_id "%s";\n' %
                        (c, ex[0][0], ex[-1][1], strand, gid, tid))
                for s, e in ex:
                    f.write('%s\trefGene\texon\t%d\t%d\t.\t%s\t.\tgene_id "%s"; transcript_id "%s";\n' %
                            (c, s, e, strand, gid, tid))

    bam = os.path.join(WD, "reads.bam")
    header = {"HD": {"VN": "1.6", "SO": "coordinate"},
              "SQ": [{"SN": c, "LN": len(s)} for c, s in genome.items()]}
    records = []
    n = 0
    for gid, c, strand, trs in genes:
        for tid, ex in trs.items():
            for k in range(6):
                n += 1
                a = pysam.AlignedSegment()
                a.query_name = "read%d" % n
                seq, cigar = "", []
                for i, (s, e) in enumerate(ex):
                    if i:
                        cigar.append((3, s - ex[i - 1][1] - 1))
                    cigar.append((0, e - s + 1))
                    seq += genome[c][s - 1:e]
                if strand == "+":
                    seq += "A" * 30
                    cigar.append((4, 30))
                else:
                    seq = "T" * 30 + seq
                    cigar.insert(0, (4, 30))
                a.query_sequence = seq
                a.flag = 16 if strand == "-" else 0
                a.reference_id = list(genome).index(c)
                a.reference_start = ex[0][0] - 1
                a.mapping_quality = 60
                a.cigartuples = cigar
                a.query_qualities = pysam.qualitystring_to_array("I" * len(seq))
                records.append(a)
    records.sort(key=lambda a: (a.reference_id, a.reference_start))
    with pysam.AlignmentFile(bam, "wb", header=header) as out:
        for a in records:
            out.write(a)
    pysam.index(bam)

    out_dir = os.path.join(WD, "out")
    env = dict(os.environ, HOME=os.path.join(WD, "home"))
    # no --complete_genedb: the annotation has no gene records, they are inferred
    cmd = [PYTHON, ISOQUANT, "--reference", fasta, "--genedb", gtf, "--bam", bam,
           "--data_type", "nanopore", "-o", out_dir, "--threads", "1", "--no_gzip"]
    p = subprocess.run(cmd, env=env, cwd=WD, stdout=subprocess.PIPE, stderr=subprocess.STDOUT, text=True)
    if p.returncode != 0:
        print("IsoQuant failed (exit code %d), nothing to check:\n%s" % (p.returncode, p.stdout[-2000:]))
        return 0
    print("IsoQuant exit code 0; GTF check said: %s" %
          [l.split(" - ")[-1] for l in p.stdout.split("\n") if "annotation seems" in l or "corrupted" in l])

    reference = {}
    for gid, c, strand, trs in genes:
        for tid, ex in trs.items():
            reference[tid] = (c, strand, gid, ex)

    violated = False
    for name in ("transcript_models", "extended_annotation"):
        path = os.path.join(out_dir, "OUT", "OUT.%s.gtf" % name)
        gene_records, exons = {}, {}
        for l in open(path):
            if l.startswith("#"):
                continue
            v = l.rstrip("\n").split("\t")
            gid = re.search(r'gene_id "([^"]*)"', v[8]).group(1)
            if v[2] == "gene":
                gene_records.setdefault(gid, []).append((v[0], v[6], int(v[3]), int(v[4])))
            elif v[2] == "exon":
                tid = re.search(r'transcript_id "([^"]*)"', v[8]).group(1)
                exons.setdefault(tid, []).append((v[0], v[6], gid, int(v[3]), int(v[4])))
        for tid, ex in sorted(exons.items()):
            if tid not in reference:
                continue
            chrom, strand, gid = ex[0][:3]
            coords = sorted((e[3], e[4]) for e in ex)
            ref_chr, ref_strand, ref_gid, ref_exons = reference[tid]
            if chrom != ref_chr:
                print("VIOLATION (%s): reference transcript %s is annotated on %s, reported on %s" %
                      (name, tid, ref_chr, chrom))
                violated = True
            if coords[-1][1] > chr_len[chrom]:
                print("VIOLATION (%s): reference transcript %s ends at %d, %s is %d bases long" %
                      (name, tid, coords[-1][1], chrom, chr_len[chrom]))
                violated = True
            for g in gene_records.get(gid, []):
                if g[1] != strand:
                    print("VIOLATION (%s): transcript %s (%s) is attributed to gene %s whose record has strand %s" %
                          (name, tid, strand, gid, g[1]))
                    violated = True
        novel = [t for t in exons if t not in reference]
        print("%s: reference transcripts reported: %s; novel transcripts: %d" %
              (name, sorted(t for t in exons if t in reference), len(novel)))
    shutil.rmtree(WD, ignore_errors=True)
    return 1 if violated else 0


if __name__ == "__main__":
    sys.exit(main())
