#!/usr/bin/env python3
"""
C03, finding 1: reference transcripts located on a sequence that the annotation names but the reference FASTA does not
contain are silently left out of extended_annotation.gtf ("the entire reference annotation plus all novel transcripts").

Input: FASTA with chr1 and chr2, reads on chr1 and chr2 (BAM header = FASTA), annotation (GTF with gene and transcript
records) with genes on chr1, chr2 and on a third sequence chrUn_KI270 (e.g. a scaffold / patch / spike-in that is in the
"ALL" flavour of an annotation, but not in the "primary assembly" FASTA).  Nothing in docs/ asks for the annotation to be
restricted to the sequences of the FASTA, IsoQuant finishes with exit code 0 and without any warning.

Exit code 1 = property violated (a reference transcript is absent from extended_annotation.gtf), 0 = fine.
"""
import os
import random
import re
import shutil
import subprocess
import sys

import pysam

HERE = os.path.dirname(os.path.abspath(__file__))
ISOQUANT = os.path.join(HERE, "isoquant.py")
PYTHON = "/venv/bin/python" if os.path.exists("/venv/bin/python") else sys.executable
WD = "/tmp/hunt3scratch_C03/demo1"


def make_seq(n, rnd):
    s = "".join(rnd.choice("ACGT") for _ in range(n))
    s = re.sub("A{5,}", lambda m: ("ACG" * len(m.group()))[:len(m.group())], s)
    s = re.sub("T{5,}", lambda m: ("TCG" * len(m.group()))[:len(m.group())], s)
    return list(s)


def main():
    if os.path.exists(WD):
        shutil.rmtree(WD)
    os.makedirs(os.path.join(WD, "home"))
    rnd = random.Random(3)
    genes = [
        ("G1", "chr1", "+", {"G1.t1": [(1000, 1200), (1500, 1700), (2000, 2300)]}),
        ("G2", "chr2", "-", {"G2.t1": [(3000, 3300), (3600, 3800), (4200, 4600)]}),
        # the gene on the sequence that is not in the FASTA
        ("G3", "chrUn_KI270", "+", {"G3.t1": [(100, 300), (500, 700)], "G3.t2": [(100, 300), (900, 1200)]}),
    ]
    genome = {"chr1": make_seq(6000, rnd), "chr2": make_seq(6000, rnd)}
    for gid, c, strand, trs in genes:
        if c not in genome:
            continue
        for ex in trs.values():
            for i in range(len(ex) - 1):
                s, e = ex[i][1] + 1, ex[i + 1][0] - 1
                left, right = ("GT", "AG") if strand == "+" else ("CT", "AC")
                genome[c][s - 1:s + 1] = left
                genome[c][e - 2:e] = right
    genome = {c: "".join(s) for c, s in genome.items()}
    fasta = os.path.join(WD, "genome.fa")
    with open(fasta, "w") as f:
        for c, s in genome.items():
            f.write(">%s\n" % c)
            for i in range(0, len(s), 60):
                f.write(s[i:i + 60] + "\n")

    gtf = os.path.join(WD, "annotation.gtf")
    with open(gtf, "w") as f:
        for gid, c, strand, trs in genes:
            allex = [e for ex in trs.values() for e in ex]
            f.write('%s\tTEST\tgene\t%d\t%d\t.\t%s\t.\tgene_id "%s";\n' %
                    (c, min(e[0] for e in allex), max(e[1] for e in allex), strand, gid))
            for tid, ex in trs.items():
                f.write('%s\tTEST\ttranscript\t%d\t%d\t.\t%s\t.\tgene_id "%s"; transcript_id "%s";\n' %
                        (c, ex[0][0], ex[-1][1], strand, gid, tid))
                for s, e in ex:
                    f.write('%s\tTEST\texon\t%d\t%d\t.\t%s\t.\tgene_id "%s"; transcript_id "%s";\n' %
                            (c, s, e, strand, gid, tid))

    bam = os.path.join(WD, "reads.bam")
    header = {"HD": {"VN": "1.6", "SO": "coordinate"},
              "SQ": [{"SN": c, "LN": len(s)} for c, s in genome.items()]}
    records = []
    n = 0
    for gid, c, strand, trs in genes:
        if c not in genome:
            continue
        for tid, ex in trs.items():
            for k in range(6):
                n += 1
                a = pysam.AlignedSegment()
                a.query_name = "read%d" % n
                seq, cigar = "", []
                for i, (s, e) in enumerate(ex):
                    if i:
                        cigar.append((3, s - ex[i - 1][1] - 1))
                    cigar.append((0, e - s + 1))
                    seq += genome[c][s - 1:e]
                if strand == "+":
                    seq += "A" * 30
                    cigar.append((4, 30))
                else:
                    seq = "T" * 30 + seq
                    cigar.insert(0, (4, 30))
                a.query_sequence = seq
                a.flag = 16 if strand == "-" else 0
                a.reference_id = list(genome).index(c)
                a.reference_start = ex[0][0] - 1
                a.mapping_quality = 60
                a.cigartuples = cigar
                a.query_qualities = pysam.qualitystring_to_array("I" * len(seq))
                records.append(a)
    records.sort(key=lambda a: (a.reference_id, a.reference_start))
    with pysam.AlignmentFile(bam, "wb", header=header) as out:
        for a in records:
            out.write(a)
    pysam.index(bam)

    out_dir = os.path.join(WD, "out")
    env = dict(os.environ, HOME=os.path.join(WD, "home"))
    cmd = [PYTHON, ISOQUANT, "--reference", fasta, "--genedb", gtf, "--complete_genedb", "--bam", bam,
           "--data_type", "nanopore", "-o", out_dir, "--threads", "1", "--no_gzip"]
    p = subprocess.run(cmd, env=env, cwd=WD, stdout=subprocess.PIPE, stderr=subprocess.STDOUT, text=True)
    if p.returncode != 0:
        print("IsoQuant failed (exit code %d), nothing to check:\n%s" % (p.returncode, p.stdout[-2000:]))
        return 0
    warnings = [l for l in p.stdout.split("\n") if "WARNING" in l or "ERROR" in l]
    print("IsoQuant exit code 0, warnings/errors in the log: %s" % (warnings if warnings else "none"))

    ext = os.path.join(out_dir, "OUT", "OUT.extended_annotation.gtf")
    reported = {}
    for l in open(ext):
        if l.startswith("#"):
            continue
        v = l.rstrip("\n").split("\t")
        if v[2] == "exon":
            tid = re.search(r'transcript_id "([^"]*)"', v[8]).group(1)
            reported.setdefault(tid, []).append((int(v[3]), int(v[4])))
    violated = False
    for gid, c, strand, trs in genes:
        for tid, ex in trs.items():
            if tid not in reported:
                print("VIOLATION: reference transcript %s (gene %s, sequence %s, exons %s) is missing from "
                      "extended_annotation.gtf" % (tid, gid, c, ex))
                violated = True
            elif sorted(reported[tid]) != ex:
                print("VIOLATION: reference transcript %s has exons %s instead of %s" % (tid, sorted(reported[tid]), ex))
                violated = True
            else:
                print("ok: reference transcript %s (%s) is in extended_annotation.gtf" % (tid, c))
    shutil.rmtree(WD, ignore_errors=True)
    return 1 if violated else 0


if __name__ == "__main__":
    sys.exit(main())
