#!/usr/bin/env python3
"""
C03 hunt, finding 4 (lower confidence, may be regarded as an undocumented limitation): reference transcripts of a
GFF3 annotation whose feature type is not literally "transcript"/"mRNA" (Ensembl / RefSeq GFF3: lnc_RNA, ncRNA,
pseudogenic_transcript, ... under ncRNA_gene / pseudogene) are silently dropped from extended_annotation.gtf and are
re-discovered as *novel* transcripts in a *novel* gene.

docs/data.md and docs/cmd.md say the annotation may be given "in GFF/GTF format".  create_extended_storage() collects
genedb.region(featuretype="gene") and GeneInfo walks children of type ('transcript', 'mRNA') only, so the reference
transcript T2 (lnc_RNA of ncRNA_gene G2) never reaches the extended annotation, although the property/doc says
extended_annotation.gtf contains the entire reference annotation.

Exit code 1 = property violated, 0 = fine.
"""
import os
import random
import shutil
import subprocess
import sys

import pysam

REPO = os.path.dirname(os.path.abspath(__file__))
PY = "/venv/bin/python" if os.path.exists("/venv/bin/python") else sys.executable
WD = "/tmp/huntscratch_C03/demo4"
CHR_LEN = 12000
A = [(1000, 1200), (2000, 2200), (3000, 3300)]
C = [(5000, 5200), (6000, 6200), (7000, 7300)]


def build_inputs():
    shutil.rmtree(WD, ignore_errors=True)
    os.makedirs(os.path.join(WD, "home"))
    rnd = random.Random(1)
    seq = [rnd.choice("ACGT") for _ in range(CHR_LEN)]
    for exons in (A, C):
        for i in range(len(exons) - 1):
            s, e = exons[i][1] + 1, exons[i + 1][0] - 1
            seq[s - 1:s + 1] = "GT"
            seq[e - 2:e] = "AG"
    seq = "".join(seq)
    with open(os.path.join(WD, "genome.fa"), "w") as f:
        f.write(">chr1\n")
        for i in range(0, CHR_LEN, 60):
            f.write(seq[i:i + 60] + "\n")
    with open(os.path.join(WD, "annot.gff3"), "w") as f:
        f.write("##gff-version 3\n")
        f.write("chr1\tsrc\tgene\t1000\t3300\t.\t+\t.\tID=gene:G1;Name=g1\n")
        f.write("chr1\tsrc\tmRNA\t1000\t3300\t.\t+\t.\tID=transcript:T1;Parent=gene:G1\n")
        for s, e in A:
            f.write("chr1\tsrc\texon\t%d\t%d\t.\t+\t.\tParent=transcript:T1\n" % (s, e))
        f.write("chr1\tsrc\tncRNA_gene\t5000\t7300\t.\t+\t.\tID=gene:G2;Name=g2\n")
        f.write("chr1\tsrc\tlnc_RNA\t5000\t7300\t.\t+\t.\tID=transcript:T2;Parent=gene:G2\n")
        for s, e in C:
            f.write("chr1\tsrc\texon\t%d\t%d\t.\t+\t.\tParent=transcript:T2\n" % (s, e))
    header = {"HD": {"VN": "1.0", "SO": "coordinate"}, "SQ": [{"SN": "chr1", "LN": CHR_LEN}]}
    records = []
    for name, exons in (("a", A), ("c", C)):
        for i in range(10):
            a = pysam.AlignedSegment()
            a.query_name = "%s%d" % (name, i)
            read_seq, cigar = "", []
            for k, (s, e) in enumerate(exons):
                if k:
                    cigar.append((3, s - exons[k - 1][1] - 1))
                cigar.append((0, e - s + 1))
                read_seq += seq[s - 1:e]
            read_seq += "A" * 30
            cigar.append((4, 30))
            a.query_sequence = read_seq
            a.flag = 0
            a.reference_id = 0
            a.reference_start = exons[0][0] - 1
            a.mapping_quality = 60
            a.cigar = cigar
            a.query_qualities = pysam.qualitystring_to_array("I" * len(read_seq))
            records.append(a)
    records.sort(key=lambda r: r.reference_start)
    bam = os.path.join(WD, "reads.bam")
    with pysam.AlignmentFile(bam, "wb", header=header) as f:
        for r in records:
            f.write(r)
    pysam.index(bam)


def transcripts_of(gtf):
    res = {}
    for line in open(gtf):
        if line.startswith("#"):
            continue
        v = line.rstrip("\n").split("\t")
        if v[2] != "transcript":
            continue
        attrs = dict((x.strip().split(" ", 1)[0], x.strip().split(" ", 1)[1].strip('"'))
                     for x in v[8].split(";") if x.strip())
        res[attrs["transcript_id"]] = (attrs["gene_id"], int(v[3]), int(v[4]))
    return res


def main():
    build_inputs()
    out = os.path.join(WD, "out")
    cmd = [PY, os.path.join(REPO, "isoquant.py"), "--reference", os.path.join(WD, "genome.fa"),
           "--genedb", os.path.join(WD, "annot.gff3"), "--complete_genedb", "--bam", os.path.join(WD, "reads.bam"),
           "--data_type", "nanopore", "-o", out, "--threads", "1", "--no_gzip"]
    p = subprocess.run(cmd, env=dict(os.environ, HOME=os.path.join(WD, "home")),
                       stdout=subprocess.PIPE, stderr=subprocess.STDOUT, text=True)
    if p.returncode != 0:
        print(p.stdout[-2000:])
        print("IsoQuant failed, cannot judge")
        return 2
    ea = transcripts_of(os.path.join(out, "OUT", "OUT.extended_annotation.gtf"))
    tm = transcripts_of(os.path.join(out, "OUT", "OUT.transcript_models.gtf"))
    print("extended_annotation.gtf transcripts:", ea)
    print("transcript_models.gtf transcripts:  ", tm)
    bad = 0
    for tid in ("transcript:T1", "transcript:T2"):
        if tid not in ea:
            print("reference transcript %s is missing from extended_annotation.gtf" % tid)
            bad += 1
    shutil.rmtree(WD, ignore_errors=True)
    if bad:
        print("PROPERTY C03 VIOLATED: extended annotation does not contain every reference transcript")
        return 1
    print("no violation")
    return 0


if __name__ == "__main__":
    sys.exit(main())
