import os, sys, random, subprocess, gzip, shutil, re
import pysam
from collections import defaultdict

IQ_DIR = os.environ.get("IQ_DIR", os.path.dirname(os.path.abspath(__file__)))
SCR = "/tmp/hunt3scratch_C04"
PY = "/venv/bin/python"

def make_genome(chroms, introns_fwd=(), introns_rev=(), seed=1, noncanon=()):
    """chroms: dict name->len; introns_*: list of (chr, start, end) 1-based closed; plants GT..AG or CT..AC"""
    rnd = random.Random(seed)
    seqs = {}
    for c, l in chroms.items():
        # avoid accidental poly-A: random over ACGT but break runs
        s = [rnd.choice("ACGT") for _ in range(l)]
        seqs[c] = s
    for c, a, b in introns_fwd:
        s = seqs[c]; s[a-1:a+1] = "GT"; s[b-2:b] = "AG"
    for c, a, b in introns_rev:
        s = seqs[c]; s[a-1:a+1] = "CT"; s[b-2:b] = "AC"
    for c, a, b in noncanon:
        s = seqs[c]; s[a-1:a+1] = "AA"; s[b-2:b] = "AA"
    return {c: "".join(s) for c, s in seqs.items()}

def write_fasta(path, seqs, width=60):
    with open(path, "w") as f:
        for c, s in seqs.items():
            f.write(">%s\n" % c)
            for i in range(0, len(s), width):
                f.write(s[i:i+width] + "\n")

def write_gtf(path, transcripts, genes=None):
    """transcripts: list of dict(gene, tid, chr, strand, exons) ; writes gene, transcript, exon lines"""
    bygene = defaultdict(list)
    for t in transcripts:
        bygene[t["gene"]].append(t)
    with open(path, "w") as f:
        for g, ts in bygene.items():
            c = ts[0]["chr"]; st = ts[0].get("gstrand", ts[0]["strand"])
            s = min(t["exons"][0][0] for t in ts); e = max(t["exons"][-1][1] for t in ts)
            f.write('%s\ttest\tgene\t%d\t%d\t.\t%s\t.\tgene_id "%s";\n' % (c, s, e, st, g))
            for t in ts:
                f.write('%s\ttest\ttranscript\t%d\t%d\t.\t%s\t.\tgene_id "%s"; transcript_id "%s";\n' %
                        (c, t["exons"][0][0], t["exons"][-1][1], t["strand"], g, t["tid"]))
                for i, ex in enumerate(t["exons"]):
                    f.write('%s\ttest\texon\t%d\t%d\t.\t%s\t.\tgene_id "%s"; transcript_id "%s"; exon_number "%d";\n' %
                            (c, ex[0], ex[1], t["strand"], g, t["tid"], i + 1))

def make_read(header, seqs, name, chrom, exons, strand="+", polya=True, mapq=60, flag_extra=0, tail_len=25,
              tags=None, seq_override=None, extra_cigar_head=None, extra_cigar_tail=None, both_tails=False):
    a = pysam.AlignedSegment(header)
    a.query_name = name
    a.reference_id = header.get_tid(chrom)
    a.reference_start = exons[0][0] - 1
    cig = []
    seq = ""
    ref = seqs[chrom]
    if (polya and strand == "-") or both_tails:
        cig.append((4, tail_len)); seq += "T" * tail_len
    for i, (s, e) in enumerate(exons):
        if i > 0:
            cig.append((3, s - exons[i-1][1] - 1))
        cig.append((0, e - s + 1))
        seq += ref[s-1:e]
    if (polya and strand == "+") or both_tails:
        cig.append((4, tail_len)); seq += "A" * tail_len
    a.cigartuples = cig
    a.query_sequence = seq if seq_override is None else seq_override
    a.flag = (16 if strand == "-" else 0) | flag_extra
    a.mapping_quality = mapq
    a.query_qualities = None
    if tags:
        for k, v in tags.items():
            a.set_tag(k, v)
    return a

def write_bam(path, seqs, reads, header_chroms=None):
    """reads: list of dicts for make_read (without header/seqs) or prebuilt via callable"""
    chroms = header_chroms if header_chroms is not None else [(c, len(s)) for c, s in seqs.items()]
    header = pysam.AlignmentHeader.from_dict({"HD": {"VN": "1.6", "SO": "coordinate"},
                                              "SQ": [{"SN": c, "LN": l} for c, l in chroms]})
    recs = []
    for r in reads:
        if callable(r):
            recs.append(r(header, seqs))
        else:
            recs.append(make_read(header, seqs, **r))
    recs.sort(key=lambda a: (a.reference_id, a.reference_start))
    with pysam.AlignmentFile(path, "wb", header=header) as out:
        for a in recs:
            out.write(a)
    pysam.index(path)

def run_iq(workdir, extra, out="out", home=None, timeout=300, debug=False):
    env = dict(os.environ)
    env["HOME"] = home or os.path.join(workdir, "home")
    os.makedirs(env["HOME"], exist_ok=True)
    outdir = os.path.join(workdir, out)
    cmd = [PY, os.path.join(IQ_DIR, "isoquant.py"), "-o", outdir, "--threads", "1", "--no_gzip"] + extra
    if debug: cmd.append("--debug")
    p = subprocess.run(cmd, env=env, stdout=subprocess.PIPE, stderr=subprocess.STDOUT, text=True, timeout=timeout, cwd=workdir)
    return p.returncode, p.stdout, outdir

def parse_gtf(path):
    genes = {}; trs = {}
    for line in open(path):
        if line.startswith("#") or not line.strip(): continue
        f = line.rstrip("\n").split("\t")
        attrs = dict(re.findall(r'(\S+) "([^"]*)";', f[8]))
        if f[2] == "gene":
            genes[attrs["gene_id"]] = dict(chr=f[0], start=int(f[3]), end=int(f[4]), strand=f[6])
        elif f[2] == "transcript":
            trs[attrs["transcript_id"]] = dict(chr=f[0], start=int(f[3]), end=int(f[4]), strand=f[6],
                                               gene=attrs["gene_id"], exons=[], attrs=attrs)
        elif f[2] == "exon":
            trs[attrs["transcript_id"]]["exons"].append((int(f[3]), int(f[4])))
    for t in trs.values():
        t["exons"].sort()
        t["introns"] = [(t["exons"][i][1] + 1, t["exons"][i+1][0] - 1) for i in range(len(t["exons"]) - 1)]
    return genes, trs

def parse_bed_introns(path):
    """corrected_reads.bed -> dict chr -> set of introns, and per read"""
    res = defaultdict(set)
    op = gzip.open if path.endswith(".gz") else open
    for line in op(path, "rt"):
        if line.startswith("#") or not line.strip(): continue
        f = line.rstrip("\n").split("\t")
        if len(f) < 12: continue
        start = int(f[1]); sizes = [int(x) for x in f[10].strip(",").split(",")]; starts = [int(x) for x in f[11].strip(",").split(",")]
        ex = [(start + s + 1, start + s + z) for s, z in zip(starts, sizes)]
        for i in range(len(ex) - 1):
            res[f[0]].add((ex[i][1] + 1, ex[i+1][0] - 1))
    return res

def check_c04(outdir, prefix="OUT", ref_transcripts=None, annotation_free=False, verbose=True):
    """returns list of violation strings"""
    d = os.path.join(outdir, prefix)
    genes, trs = parse_gtf(os.path.join(d, prefix + ".transcript_models.gtf"))
    r2t = defaultdict(list)
    p = os.path.join(d, prefix + ".transcript_model_reads.tsv")
    if not os.path.exists(p): p += ".gz"
    op = gzip.open if p.endswith(".gz") else open
    for line in op(p, "rt"):
        if line.startswith("#"): continue
        r, t = line.rstrip("\n").split("\t")
        r2t[t].append(r)
    bed = os.path.join(d, prefix + ".corrected_reads.bed")
    if not os.path.exists(bed): bed += ".gz"
    read_introns = parse_bed_introns(bed)
    ref_transcripts = ref_transcripts or []
    ref_ids = set(t["tid"] for t in ref_transcripts)
    ref_introns = defaultdict(set); ref_chains = defaultdict(set)
    for t in ref_transcripts:
        intr = [(t["exons"][i][1] + 1, t["exons"][i+1][0] - 1) for i in range(len(t["exons"]) - 1)]
        for i in intr: ref_introns[t["chr"]].add(i)
        if intr: ref_chains[t["chr"]].add(tuple(intr))
    v = []
    for t in r2t:
        if t != "*" and t not in trs:
            v.append("transcript_model_reads references %s absent from GTF" % t)
    seen = {}
    for tid, t in trs.items():
        novel = tid not in ref_ids
        if annotation_free:
            if not (tid.endswith(".nic") or tid.endswith(".nnic")) : v.append("annotation-free: model %s not novel" % tid)
            if not t["gene"].startswith("novel_gene_"): v.append("annotation-free: model %s in gene %s" % (tid, t["gene"]))
        if not novel: continue
        for i in t["introns"]:
            if i not in read_introns[t["chr"]]:
                v.append("%s intron %s in no corrected read" % (tid, i))
        if not r2t.get(tid): v.append("%s has no supporting read" % tid)
        if t["strand"] not in "+-": v.append("%s strand %s" % (tid, t["strand"]))
        if t["introns"]:
            allknown = all(i in ref_introns[t["chr"]] for i in t["introns"])
            if tid.endswith(".nic") != allknown or tid.endswith(".nnic") != (not allknown):
                v.append("%s suffix wrong: all introns annotated=%s" % (tid, allknown))
            ch = tuple(t["introns"])
            if ch in ref_chains[t["chr"]]: v.append("%s repeats a reference chain" % tid)
            key = (t["chr"], t["strand"], ch)
            if key in seen: v.append(("KNOWN2EXON " if len(ch) == 1 else "") + "%s and %s same chain same strand" % (tid, seen[key]))
            seen[key] = tid
    if verbose:
        for tid, t in trs.items():
            print("  MODEL", tid, t["gene"], t["strand"], t["exons"], "reads=%d" % len(r2t.get(tid, [])))
        for x in v: print("  VIOLATION:", x)
    return v
