#!/usr/bin/env python3
"""
C04 borderline observation 4: with --report_canonical all (or --report_canonical auto together with
--model_construction_strategy all) a novel spliced transcript is reported with strand '.'.

6 reads without polyA tail, 3 exons, both introns have non-canonical splice sites (AA..AA).  StrandDetector.get_strand()
returns '.', there is no reference gene to borrow a strand from, and construct_fl_isoforms() creates the model with
strand '.' because StrandnessReportingLevel.all skips both strand checks.  docs/cmd.md describes the level as
"report all transcript model regardless of their splice sites", it does not say that models may be unstranded, so the
"carries a definite strand" clause is violated only for this explicitly chosen, documented reporting level.
The default level (only_stranded) reports nothing for the same input.
"""
import collections, os, random, shutil, subprocess, sys, tempfile
import pysam

REPO = os.path.dirname(os.path.abspath(__file__))
SCRATCH_ROOT = "/tmp/huntscratch_C04"


def make_genome(length, plus_introns=(), minus_introns=(), noncanonical=(), seed=1):
    """random genome; GT..AG is planted at plus_introns, CT..AC at minus_introns (1-based closed intron coordinates)"""
    rnd = random.Random(seed)
    g = [rnd.choice("ACGT") for _ in range(length)]
    for (s, e) in plus_introns:
        g[s - 1:s + 1] = list("GT")
        g[e - 2:e] = list("AG")
    for (s, e) in minus_introns:
        g[s - 1:s + 1] = list("CT")
        g[e - 2:e] = list("AC")
    for (s, e) in noncanonical:
        g[s - 1:s + 1] = list("AA")
        g[e - 2:e] = list("AA")
    return "".join(g)


def write_fasta(path, chroms):
    with open(path, "w") as f:
        for name, seq in chroms.items():
            f.write(">%s\n" % name)
            for i in range(0, len(seq), 60):
                f.write(seq[i:i + 60] + "\n")


def write_gtf(path, transcripts):
    genes = collections.OrderedDict()
    for t in transcripts:
        genes.setdefault((t["chr"], t["gene"], t["strand"]), []).append(t)
    with open(path, "w") as f:
        for (c, g, st), ts in genes.items():
            gs = min(t["exons"][0][0] for t in ts)
            ge = max(t["exons"][-1][1] for t in ts)
            f.write('%s\ttest\tgene\t%d\t%d\t.\t%s\t.\tgene_id "%s";\n' % (c, gs, ge, st, g))
            for t in ts:
                f.write('%s\ttest\ttranscript\t%d\t%d\t.\t%s\t.\tgene_id "%s"; transcript_id "%s";\n' %
                        (c, t["exons"][0][0], t["exons"][-1][1], st, g, t["tid"]))
                for (s, e) in t["exons"]:
                    f.write('%s\ttest\texon\t%d\t%d\t.\t%s\t.\tgene_id "%s"; transcript_id "%s";\n' %
                            (c, s, e, st, g, t["tid"]))


def write_bam(path, chroms, reads):
    """reads: dict(name, chr, exons=[(s,e)..] 1-based closed, polya=<len of soft-clipped A tail>)"""
    names = list(chroms.keys())
    header = {"HD": {"VN": "1.0", "SO": "coordinate"},
              "SQ": [{"SN": n, "LN": len(chroms[n])} for n in names]}
    recs = []
    for r in reads:
        a = pysam.AlignedSegment()
        a.query_name = r["name"]
        seq, cigar = "", []
        ex = r["exons"]
        g = chroms[r["chr"]]
        for i, (s, e) in enumerate(ex):
            if i > 0:
                cigar.append((3, s - ex[i - 1][1] - 1))
            seq += g[s - 1:e]
            cigar.append((0, e - s + 1))
        if r.get("polya"):
            seq += "A" * r["polya"]
            cigar.append((4, r["polya"]))
        a.query_sequence = seq
        a.flag = 0
        a.reference_id = names.index(r["chr"])
        a.reference_start = ex[0][0] - 1
        a.mapping_quality = 60
        a.cigartuples = cigar
        a.query_qualities = pysam.qualitystring_to_array("I" * len(seq))
        recs.append(a)
    recs.sort(key=lambda x: (x.reference_id, x.reference_start))
    with pysam.AlignmentFile(path, "wb", header=header) as out:
        for a in recs:
            out.write(a)
    pysam.index(path)


def run_isoquant(wd, chroms, reads, ref=None, extra=()):
    os.makedirs(wd, exist_ok=True)
    fasta, bam = os.path.join(wd, "genome.fa"), os.path.join(wd, "reads.bam")
    write_fasta(fasta, chroms)
    write_bam(bam, chroms, reads)
    home = os.path.join(wd, "home")
    os.makedirs(home, exist_ok=True)
    out = os.path.join(wd, "out")
    cmd = [sys.executable, os.path.join(REPO, "isoquant.py"), "--reference", fasta, "--bam", bam,
           "--data_type", "nanopore", "-o", out, "--threads", "1", "--no_gzip"]
    if ref:
        gtf = os.path.join(wd, "annot.gtf")
        write_gtf(gtf, ref)
        cmd += ["--genedb", gtf, "--complete_genedb"]
    cmd += list(extra)
    env = dict(os.environ, HOME=home)
    p = subprocess.run(cmd, env=env, stdout=subprocess.PIPE, stderr=subprocess.STDOUT, text=True, timeout=300)
    if p.returncode != 0:
        print(p.stdout[-3000:])
        raise RuntimeError("IsoQuant failed with code %d" % p.returncode)
    return os.path.join(out, "OUT", "OUT.transcript_models.gtf"), os.path.join(out, "OUT", "OUT.transcript_model_reads.tsv")


def parse_models(gtf_path):
    tr = collections.OrderedDict()
    for line in open(gtf_path):
        if line.startswith("#") or not line.strip():
            continue
        f = line.rstrip("\n").split("\t")
        attrs = dict((kv.strip().split(" ", 1)[0], kv.strip().split(" ", 1)[1].strip('"'))
                     for kv in f[8].split(";") if kv.strip())
        if f[2] == "transcript":
            tr[attrs["transcript_id"]] = dict(chr=f[0], strand=f[6], gene=attrs["gene_id"], exons=[])
        elif f[2] == "exon":
            tr[attrs["transcript_id"]]["exons"].append((int(f[3]), int(f[4])))
    for t in tr.values():
        t["exons"].sort()
        t["introns"] = introns_of(t["exons"])
    return tr


def introns_of(exons):
    return [(exons[i][1] + 1, exons[i + 1][0] - 1) for i in range(len(exons) - 1)]


def run_case(wd, extra):
    I1, I2 = (1101, 1500), (1701, 2200)
    chroms = {"chr1": make_genome(8000, noncanonical=[I1, I2])}
    reads = [dict(name="r%d" % i, chr="chr1", exons=[(1000, 1100), (1501, 1700), (2201, 2600)]) for i in range(6)]
    gtf, _ = run_isoquant(wd, chroms, reads, extra=extra)
    problems = []
    models = parse_models(gtf)
    print("%s -> %d models" % (" ".join(extra) or "(defaults)", len(models)))
    for tid, t in models.items():
        print("   %s %s %s %s" % (tid, t["gene"], t["strand"], t["exons"]))
        if t["strand"] not in ("+", "-"):
            problems.append("[%s] %s is reported with strand '%s'" % (" ".join(extra), tid, t["strand"]))
    return problems


def main():
    os.makedirs(SCRATCH_ROOT, exist_ok=True)
    wd = tempfile.mkdtemp(prefix="hunt4_", dir=SCRATCH_ROOT)
    try:
        problems = run_case(os.path.join(wd, "default"), [])
        problems += run_case(os.path.join(wd, "all"), ["--report_canonical", "all"])
        problems += run_case(os.path.join(wd, "auto_all"),
                             ["--report_canonical", "auto", "--model_construction_strategy", "all"])
    finally:
        shutil.rmtree(wd, ignore_errors=True)
    if problems:
        print("C04 VIOLATED (definite strand clause):")
        for p in problems:
            print("  " + p)
        sys.exit(1)
    print("C04 holds on this input")
    sys.exit(0)


if __name__ == "__main__":
    main()
