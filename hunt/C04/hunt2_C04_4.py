import os, sys, random, shutil, subprocess
import pysam

REPO = os.path.dirname(os.path.abspath(__file__))
PY = sys.executable if os.path.exists(sys.executable) else "/venv/bin/python"
SCRATCH_ROOT = "/tmp/hunt2scratch_C04"


def make_genome(length, canonical_plus=(), noncanonical=(), seed=7):
    """random sequence without homopolymer runs; GT..AG forced at canonical_plus introns,
    CC..CC forced at noncanonical introns (1-based inclusive coordinates)"""
    rnd = random.Random(seed)
    seq, last, run = [], "", 0
    for _ in range(length):
        c = rnd.choice("ACGT")
        if c == last:
            run += 1
            if run >= 3:
                c = rnd.choice([x for x in "ACGT" if x != last])
                run = 0
        else:
            run = 0
        last = c
        seq.append(c)
    for s, e in canonical_plus:
        seq[s - 1:s + 1] = "GT"
        seq[e - 2:e] = "AG"
    for s, e in noncanonical:
        seq[s - 1:s + 1] = "CC"
        seq[e - 2:e] = "CC"
    return "".join(seq)


def introns_of(exons):
    return [(exons[i][1] + 1, exons[i + 1][0] - 1) for i in range(len(exons) - 1)]


def write_inputs(wd, chrom, genome, genes, reads):
    """genes: [(gene_id, strand, [(tid, exons)])]; reads: [(name, exons, polya, polyt, mapq)]"""
    fa = os.path.join(wd, "genome.fa")
    with open(fa, "w") as f:
        f.write(">%s\n" % chrom)
        for i in range(0, len(genome), 60):
            f.write(genome[i:i + 60] + "\n")
    gtf = os.path.join(wd, "annot.gtf")
    with open(gtf, "w") as f:
        for gid, strand, transcripts in genes:
            allex = [e for t in transcripts for e in t[1]]
            f.write('%s\tsrc\tgene\t%d\t%d\t.\t%s\t.\tgene_id "%s";\n' %
                    (chrom, min(e[0] for e in allex), max(e[1] for e in allex), strand, gid))
            for tid, exons in transcripts:
                f.write('%s\tsrc\ttranscript\t%d\t%d\t.\t%s\t.\tgene_id "%s"; transcript_id "%s";\n' %
                        (chrom, exons[0][0], exons[-1][1], strand, gid, tid))
                for s, e in exons:
                    f.write('%s\tsrc\texon\t%d\t%d\t.\t%s\t.\tgene_id "%s"; transcript_id "%s";\n' %
                            (chrom, s, e, strand, gid, tid))
    header = pysam.AlignmentHeader.from_dict({"HD": {"VN": "1.0", "SO": "coordinate"},
                                              "SQ": [{"SN": chrom, "LN": len(genome)}]})
    recs = []
    for name, exons, polya, polyt, mapq in reads:
        a = pysam.AlignedSegment(header)
        a.query_name = name
        a.reference_id = 0
        a.reference_start = exons[0][0] - 1
        cigar, seq = [], ""
        if polyt:
            cigar.append((4, polyt))
            seq += "T" * polyt
        for i, (s, e) in enumerate(exons):
            if i:
                cigar.append((3, s - exons[i - 1][1] - 1))
            cigar.append((0, e - s + 1))
            seq += genome[s - 1:e]
        if polya:
            cigar.append((4, polya))
            seq += "A" * polya
        a.cigartuples = cigar
        a.query_sequence = seq
        a.query_qualities = pysam.qualitystring_to_array("I" * len(seq))
        a.mapping_quality = mapq
        a.flag = 0
        recs.append(a)
    recs.sort(key=lambda r: r.reference_start)
    bam = os.path.join(wd, "reads.bam")
    with pysam.AlignmentFile(bam, "wb", header=header) as f:
        for a in recs:
            f.write(a)
    pysam.index(bam)
    return fa, gtf, bam


def run_isoquant(wd, fa, bam, gtf=None, extra=()):
    home = os.path.join(wd, "home")
    os.makedirs(home, exist_ok=True)
    cmd = [PY, os.path.join(REPO, "isoquant.py"), "--reference", fa, "--bam", bam, "--data_type", "nanopore",
           "-o", os.path.join(wd, "out"), "--threads", "1", "--no_gzip", "--prefix", "OUT"]
    if gtf:
        cmd += ["--genedb", gtf, "--complete_genedb"]
    cmd += list(extra)
    p = subprocess.run(cmd, env=dict(os.environ, HOME=home), stdout=subprocess.PIPE, stderr=subprocess.STDOUT, text=True)
    if p.returncode != 0:
        print(p.stdout[-3000:])
        print("IsoQuant failed with exit code %d" % p.returncode)
        sys.exit(2)
    return os.path.join(wd, "out", "OUT")


def read_models(outdir):
    """tid -> dict(strand, gene, exons, introns)"""
    models = {}
    for line in open(os.path.join(outdir, "OUT.transcript_models.gtf")):
        if line.startswith("#"):
            continue
        f = line.rstrip("\n").split("\t")
        attrs = dict(kv.strip().split(" ", 1) for kv in f[8].strip().strip(";").split(";") if kv.strip())
        attrs = {k: v.strip('"') for k, v in attrs.items()}
        if f[2] == "transcript":
            models[attrs["transcript_id"]] = dict(strand=f[6], gene=attrs["gene_id"], exons=[])
        elif f[2] == "exon":
            models[attrs["transcript_id"]]["exons"].append((int(f[3]), int(f[4])))
    for m in models.values():
        m["exons"].sort()
        m["introns"] = introns_of(m["exons"])
    return models


def read_model_reads(outdir):
    res = {}
    for line in open(os.path.join(outdir, "OUT.transcript_model_reads.tsv")):
        f = line.rstrip("\n").split("\t")
        if len(f) == 2 and f[0] != "#read_id":
            res.setdefault(f[1], []).append(f[0])
    return res


def fresh_dir(name):
    wd = os.path.join(SCRATCH_ROOT, name)
    shutil.rmtree(wd, ignore_errors=True)
    os.makedirs(wd)
    return wd


# ---------------------------------------------------------------------------------------------------------------
# C04 hunt 2, finding 4: a novel model is reported with strand '.' when --report_canonical all is used
# (documented: "report all transcript model regardless of their splice sites"; it is also what the
# model construction strategy `all` selects).
#
# Eight reads without polyA tail share a 3-exon structure whose introns are not canonical on either strand.
# StrandDetector.get_strand() returns '.', select_reference_gene() finds no gene, and construct_fl_isoforms()
# creates the TranscriptModel with strand '.'; the GTF gets '.' in the strand column of the gene, the transcript
# and the exons.
# ---------------------------------------------------------------------------------------------------------------
def main():
    wd = fresh_dir("demo4")
    chrom = "chr1"
    exons = [(1000, 1200), (1501, 1700), (2001, 2300)]
    genome = make_genome(6000, noncanonical=introns_of(exons))
    reads = [("r%d" % i, exons, 0, 0, 60) for i in range(8)]
    fa, gtf, bam = write_inputs(wd, chrom, genome, [("Gfar", "+", [("Tfar", [(5000, 5200), (5401, 5600)])])], reads)
    bad = []
    for mode, annotation in (("annotation-free", None), ("with annotation", gtf)):
        out = run_isoquant(wd, fa, bam, annotation, extra=["--report_canonical", "all", "--polya_requirement", "never"])
        models = read_models(out)
        for tid, m in models.items():
            if tid.endswith(".nic") or tid.endswith(".nnic"):
                print("%s: novel model %s strand '%s' gene %s %s" % (mode, tid, m["strand"], m["gene"], m["exons"]))
                if m["strand"] not in ("+", "-"):
                    bad.append("%s: %s is reported with strand '%s'" % (mode, tid, m["strand"]))
        shutil.rmtree(os.path.join(wd, "out"))
    shutil.rmtree(wd, ignore_errors=True)
    if bad:
        print("PROPERTY C04 VIOLATED (no definite strand):")
        for b in bad:
            print("  " + b)
        sys.exit(1)
    print("ok")
    sys.exit(0)


if __name__ == "__main__":
    main()
