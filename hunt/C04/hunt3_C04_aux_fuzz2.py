import os, sys
import sys; sys.path.insert(0, os.path.dirname(os.path.abspath(__file__)))
from hunt3_C04_aux_harness import *
import hunt3_C04_aux_fuzz1 as F
import random, pickle, traceback, copy

def heavy(rnd):
    case = F.gen_case(rnd)
    reads = case["reads"]
    extra = []
    n = len(reads)
    for r in list(reads):
        # multi-junction jitter copies
        if rnd.random() < 0.5 and len(r["exons"]) > 1:
            for k in range(rnd.randint(1, 4)):
                q = copy.deepcopy(r); q["name"] = r["name"] + "_j%d" % k
                ex = [list(e) for e in q["exons"]]
                for i in range(len(ex) - 1):
                    if rnd.random() < 0.5:
                        d = rnd.choice([-1, 1]) * rnd.choice([1, 2, 4, 6, 9, 13, 19, 22])
                        if rnd.random() < 0.5:
                            if ex[i][1] + d > ex[i][0] + 3 and ex[i][1] + d < ex[i+1][0] - 30: ex[i][1] += d
                        else:
                            if ex[i+1][0] + d < ex[i+1][1] - 3 and ex[i+1][0] + d > ex[i][1] + 30: ex[i+1][0] += d
                q["exons"] = [tuple(e) for e in ex]
                q["polya"] = rnd.random() < 0.7
                extra.append(q)
        # secondary duplicate of the same read name, slightly shifted
        if rnd.random() < 0.05:
            q = copy.deepcopy(r); q["flag_extra"] = 256
            extra.append(q)
        # mono-exon polyA fragments of last exon
        if rnd.random() < 0.1:
            e = r["exons"][-1] if r["strand"] == "+" else r["exons"][0]
            if e[1] - e[0] > 40:
                q = copy.deepcopy(r); q["name"] = r["name"] + "_m"; q["exons"] = [(e[0] + rnd.randint(0, 10), e[1])] if r["strand"] == "+" else [(e[0], e[1] - rnd.randint(0, 10))]
                q["polya"] = True
                extra.append(q)
    case["reads"] = reads + extra
    if rnd.random() < 0.3:
        case["two_bams"] = True
    return case

def run_case(case, wd, seed):
    shutil.rmtree(wd, ignore_errors=True); os.makedirs(wd)
    seqs = make_genome(case["chroms"], introns_fwd=case["fwd"], introns_rev=case["rev"], seed=seed)
    write_fasta(wd + "/g.fa", seqs)
    if case.get("two_bams"):
        rnd = random.Random(seed + 7)
        a, b = [], []
        for r in case["reads"]:
            (a if rnd.random() < 0.5 else b).append(r)
        if not a or not b: a, b = case["reads"], case["reads"][:1]
        write_bam(wd + "/r.bam", seqs, a); write_bam(wd + "/r2.bam", seqs, b)
        bams = [wd + "/r.bam", wd + "/r2.bam"]
    else:
        write_bam(wd + "/r.bam", seqs, case["reads"]); bams = [wd + "/r.bam"]
    args = ["--reference", wd + "/g.fa", "--bam"] + bams + ["--force"] + case["opts"]
    if case["annot"]:
        write_gtf(wd + "/a.gtf", case["annot"]); args += ["--genedb", wd + "/a.gtf", "--complete_genedb"]
    rc, out, od = run_iq(wd, args)
    if rc != 0:
        return ["CRASH rc=%d: %s" % (rc, out[-1500:])]
    return check_c04(od, ref_transcripts=case["annot"], annotation_free=not case["annot"], verbose=False)

if __name__ == "__main__":
    start = int(sys.argv[1]); n = int(sys.argv[2]); tag = sys.argv[3]
    for seed in range(start, start + n):
        rnd = random.Random(seed)
        case = heavy(rnd)
        if not case["reads"]: continue
        wd = SCR + "/fz_" + tag
        try:
            v = run_case(case, wd, seed)
        except Exception as e:
            v = ["HARNESS " + traceback.format_exc()[-800:]]
        v = [x for x in v if not x.startswith("KNOWN2EXON")]
        if v:
            print("SEED", seed, case["opts"], "annot=%d" % len(case["annot"]), flush=True)
            for x in v: print("   ", x[:1500], flush=True)
            pickle.dump(case, open(SCR + "/fail2_%d.pkl" % seed, "wb"))
    print("DONE", tag, flush=True)
