import os, sys
import sys; sys.path.insert(0, os.path.dirname(os.path.abspath(__file__)))
from hunt3_C04_aux_harness import *
import random, json, pickle, traceback

STRATS = ["reliable","default_pacbio","sensitive_pacbio","fl_pacbio","default_ont","sensitive_ont","all","assembly"]

def gen_case(rnd):
    nloci = rnd.randint(1, 4)
    chroms = {"chr1": 0, "chr2": 3000}
    pos = 500
    loci = []
    fwd, rev = [], []
    annot = []
    reads = []
    rid = 0
    for li in range(nloci):
        strand = rnd.choice("+-")
        nex = rnd.randint(3, 8)
        exons = []
        p = pos
        for e in range(nex):
            l = rnd.choice([rnd.randint(30, 80), rnd.randint(80, 300), rnd.randint(100, 600)])
            exons.append((p, p + l - 1))
            p += l + rnd.choice([rnd.randint(70, 150), rnd.randint(150, 800)])
        # last exon longer
        locus_end = exons[-1][1]
        # isoform pool
        pool = []
        def variant(base):
            ex = list(base)
            op = rnd.choice(["skip", "alt5", "alt3", "trunc_l", "trunc_r", "retain", "micro", "none", "shift_small"])
            if op == "skip" and len(ex) > 2:
                i = rnd.randint(1, len(ex) - 2); ex.pop(i)
            elif op == "alt5" and len(ex) > 1:
                i = rnd.randint(0, len(ex) - 2); d = rnd.choice([-1,1]) * rnd.choice([3, 7, 12, 18, 25, 40])
                if ex[i][1] + d > ex[i][0] + 10 and ex[i][1] + d < ex[i+1][0] - 60: ex[i] = (ex[i][0], ex[i][1] + d)
            elif op == "alt3" and len(ex) > 1:
                i = rnd.randint(1, len(ex) - 1); d = rnd.choice([-1,1]) * rnd.choice([3, 7, 12, 18, 25, 40])
                if ex[i][0] + d < ex[i][1] - 10 and ex[i][0] + d > ex[i-1][1] + 60: ex[i] = (ex[i][0] + d, ex[i][1])
            elif op == "trunc_l" and len(ex) > 2:
                ex = ex[rnd.randint(1, len(ex) - 2):]
            elif op == "trunc_r" and len(ex) > 2:
                ex = ex[:rnd.randint(2, len(ex) - 1)]
            elif op == "retain" and len(ex) > 2:
                i = rnd.randint(0, len(ex) - 2); ex[i:i+2] = [(ex[i][0], ex[i+1][1])]
            elif op == "micro" and len(ex) > 1:
                i = rnd.randint(0, len(ex) - 2)
                gap = ex[i+1][0] - ex[i][1]
                if gap > 200:
                    s = ex[i][1] + rnd.randint(70, gap - 100); ex.insert(i + 1, (s, s + rnd.randint(3, 25)))
            elif op == "shift_small" and len(ex) > 1:
                i = rnd.randint(1, len(ex) - 1); d = rnd.choice([-1,1]) * rnd.randint(1, 6)
                if ex[i][0] + d < ex[i][1] - 10: ex[i] = (ex[i][0] + d, ex[i][1])
            return ex
        pool.append(exons)
        for k in range(rnd.randint(1, 5)):
            pool.append(variant(rnd.choice(pool)))
        # dedupe
        uniq = []
        for ex in pool:
            if ex not in uniq and len(ex) >= 1: uniq.append(ex)
        pool = uniq
        for ex in pool:
            for i in range(len(ex) - 1):
                (fwd if strand == "+" else rev).append(("chr1", ex[i][1] + 1, ex[i+1][0] - 1))
        nann = rnd.randint(0, min(3, len(pool)))
        ann_idx = rnd.sample(range(len(pool)), nann)
        for j in ann_idx:
            annot.append(dict(gene="G%d" % li, tid="T%d_%d" % (li, j), chr="chr1", strand=strand, exons=pool[j]))
        # reads
        for j, ex in enumerate(pool):
            cnt = rnd.choice([0, 1, 2, 3, 4, 6, 10, 25])
            for c in range(cnt):
                rex = list(ex)
                # end jitter
                s0 = rex[0][0] - rnd.choice([0, 0, rnd.randint(0, 30), rnd.randint(0, 120)]) + rnd.choice([0, rnd.randint(0, 20)])
                e0 = rex[-1][1] + rnd.choice([0, 0, rnd.randint(0, 30), rnd.randint(0, 120)]) - rnd.choice([0, rnd.randint(0, 20)])
                if s0 < rex[0][1] - 5 and s0 > 0: rex[0] = (s0, rex[0][1])
                if e0 > rex[-1][0] + 5: rex[-1] = (rex[-1][0], e0)
                polya = rnd.random() < 0.75
                # truncation
                if rnd.random() < 0.25 and len(rex) > 2:
                    k = rnd.randint(1, len(rex) - 2)
                    if strand == "+":
                        rex = rex[k:]; rex[0] = (rex[0][0] + rnd.randint(0, max(0, rex[0][1] - rex[0][0] - 10)), rex[0][1])
                    else:
                        rex = rex[:len(rex) - k]; rex[-1] = (rex[-1][0], rex[-1][1] - rnd.randint(0, max(0, rex[-1][1] - rex[-1][0] - 10)))
                # junction jitter
                if rnd.random() < 0.3 and len(rex) > 1:
                    i = rnd.randint(0, len(rex) - 2); d = rnd.choice([-1, 1]) * rnd.choice([1, 2, 3, 5, 8, 11, 15])
                    if rnd.random() < 0.5:
                        if rex[i][1] + d > rex[i][0] + 3 and rex[i][1] + d < rex[i+1][0] - 30: rex[i] = (rex[i][0], rex[i][1] + d)
                    else:
                        if rex[i+1][0] + d < rex[i+1][1] - 3 and rex[i+1][0] + d > rex[i][1] + 30: rex[i+1] = (rex[i+1][0] + d, rex[i+1][1])
                mapq = rnd.choice([60, 60, 60, 30, 10, 3, 0])
                fe = 256 if rnd.random() < 0.05 else 0
                rstrand = strand if rnd.random() < 0.9 else rnd.choice("+-")
                reads.append(dict(name="r%d" % rid, chrom="chr1", exons=rex, strand=rstrand, polya=polya, mapq=mapq, flag_extra=fe,
                                  both_tails=(rnd.random() < 0.02)))
                rid += 1
        # antisense / next locus placement: sometimes overlap
        if rnd.random() < 0.25:
            pos = exons[rnd.randint(0, len(exons) - 1)][0] + rnd.randint(-50, 50)
        else:
            pos = locus_end + rnd.choice([rnd.randint(150, 400), rnd.randint(400, 3000)])
    maxend = max(max(r["exons"][-1][1] for r in reads) if reads else 0, pos) + 1000
    chroms["chr1"] = maxend
    opts = []
    dt = rnd.choice(["nanopore", "pacbio", "assembly"])
    opts += ["--data_type", dt]
    if rnd.random() < 0.6: opts += ["--model_construction_strategy", rnd.choice(STRATS)]
    if rnd.random() < 0.3: opts += ["--matching_strategy", rnd.choice(["exact", "precise", "default", "loose"])]
    if rnd.random() < 0.3: opts += ["--polya_requirement", rnd.choice(["never", "always", "auto"])]
    if rnd.random() < 0.3: opts += ["--report_novel_unspliced", rnd.choice(["true", "false"])]
    if rnd.random() < 0.3: opts += ["--report_canonical", rnd.choice(["only_canonical", "only_stranded", "auto"])]
    if rnd.random() < 0.2: opts += ["--delta", str(rnd.choice([0, 1, 2, 4, 8, 15, 30]))]
    if rnd.random() < 0.15: opts += ["--fl_data"]
    if rnd.random() < 0.15: opts += ["--splice_correction_strategy", rnd.choice(["none", "default_pacbio", "default_ont", "conservative_ont", "all", "assembly"])]
    if rnd.random() < 0.1: opts += ["--no_secondary"]
    if rnd.random() < 0.1: opts += ["--sqanti_output"]
    if rnd.random() < 0.1: opts += ["--high_memory"]
    use_annot = bool(annot) and rnd.random() < 0.75
    return dict(chroms=chroms, fwd=fwd, rev=rev, annot=annot if use_annot else [], reads=reads, opts=opts)

def run_case(case, wd, seed):
    shutil.rmtree(wd, ignore_errors=True); os.makedirs(wd)
    seqs = make_genome(case["chroms"], introns_fwd=case["fwd"], introns_rev=case["rev"], seed=seed)
    write_fasta(wd + "/g.fa", seqs)
    write_bam(wd + "/r.bam", seqs, case["reads"])
    args = ["--reference", wd + "/g.fa", "--bam", wd + "/r.bam", "--force"] + case["opts"]
    if case["annot"]:
        write_gtf(wd + "/a.gtf", case["annot"]); args += ["--genedb", wd + "/a.gtf", "--complete_genedb"]
    rc, out, od = run_iq(wd, args)
    if rc != 0:
        return ["CRASH rc=%d: %s" % (rc, out[-1500:])]
    return check_c04(od, ref_transcripts=case["annot"], annotation_free=not case["annot"], verbose=False)

if __name__ == "__main__":
    start = int(sys.argv[1]); n = int(sys.argv[2]); tag = sys.argv[3]
    for seed in range(start, start + n):
        rnd = random.Random(seed)
        case = gen_case(rnd)
        if not case["reads"]: continue
        wd = SCR + "/fz_" + tag
        try:
            v = run_case(case, wd, seed)
        except Exception as e:
            v = ["HARNESS " + traceback.format_exc()[-800:]]
        v = [x for x in v if not x.startswith("KNOWN2EXON")]
        if v:
            print("SEED", seed, case["opts"], "annot=%d" % len(case["annot"]), flush=True)
            for x in v: print("   ", x[:1500], flush=True)
            pickle.dump(case, open(SCR + "/fail_%d.pkl" % seed, "wb"))
    print("DONE", tag, flush=True)
