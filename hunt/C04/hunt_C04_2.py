#!/usr/bin/env python3
"""
C04 violation 2: the same novel isoform is reported twice (two novel transcripts with an identical intron chain,
identical polyA site and the same strand).

Annotation-free run.  6 polyA reads of a novel 3-exon isoform N (introns (3001,20000) and (20201,50000), all reads end
at the same polyA site 64336; 3 reads start at 2650, 3 reads are 5'-truncated and start at 2900) overlap the last exon
of a highly expressed short isoform H (700 reads, 1000-3400).  The whole read cluster is > 32768 bp long, therefore
AlignmentCollector.split_coverage_regions() cuts it at the first coverage bin whose coverage is <= 1% of the maximum
(6 <= 7), i.e. inside the second intron of N: regions (1000..33536) and (33537..64336).  forward_alignments() hands
every N read to BOTH regions; MultimapResolver.select_noninformative() then keeps, per read, the copy in the region
with the larger overlap - the reads starting at 2650 stay in region 1, those starting at 2900 in region 2.
Models are constructed per region (GraphBasedModelConstructor.process) and nothing compares novel models of different
regions, so N is reported once per region.
Control: with 100 instead of 700 H reads (no split: 6 > 1) a single model is reported for the same 6 reads.
"""
import collections, os, random, shutil, subprocess, sys, tempfile
import pysam

REPO = os.path.dirname(os.path.abspath(__file__))
SCRATCH_ROOT = "/tmp/huntscratch_C04"


def make_genome(length, plus_introns=(), minus_introns=(), noncanonical=(), seed=1):
    """random genome; GT..AG is planted at plus_introns, CT..AC at minus_introns (1-based closed intron coordinates)"""
    rnd = random.Random(seed)
    g = [rnd.choice("ACGT") for _ in range(length)]
    for (s, e) in plus_introns:
        g[s - 1:s + 1] = list("GT")
        g[e - 2:e] = list("AG")
    for (s, e) in minus_introns:
        g[s - 1:s + 1] = list("CT")
        g[e - 2:e] = list("AC")
    for (s, e) in noncanonical:
        g[s - 1:s + 1] = list("AA")
        g[e - 2:e] = list("AA")
    return "".join(g)


def write_fasta(path, chroms):
    with open(path, "w") as f:
        for name, seq in chroms.items():
            f.write(">%s\n" % name)
            for i in range(0, len(seq), 60):
                f.write(seq[i:i + 60] + "\n")


def write_gtf(path, transcripts):
    genes = collections.OrderedDict()
    for t in transcripts:
        genes.setdefault((t["chr"], t["gene"], t["strand"]), []).append(t)
    with open(path, "w") as f:
        for (c, g, st), ts in genes.items():
            gs = min(t["exons"][0][0] for t in ts)
            ge = max(t["exons"][-1][1] for t in ts)
            f.write('%s\ttest\tgene\t%d\t%d\t.\t%s\t.\tgene_id "%s";\n' % (c, gs, ge, st, g))
            for t in ts:
                f.write('%s\ttest\ttranscript\t%d\t%d\t.\t%s\t.\tgene_id "%s"; transcript_id "%s";\n' %
                        (c, t["exons"][0][0], t["exons"][-1][1], st, g, t["tid"]))
                for (s, e) in t["exons"]:
                    f.write('%s\ttest\texon\t%d\t%d\t.\t%s\t.\tgene_id "%s"; transcript_id "%s";\n' %
                            (c, s, e, st, g, t["tid"]))


def write_bam(path, chroms, reads):
    """reads: dict(name, chr, exons=[(s,e)..] 1-based closed, polya=<len of soft-clipped A tail>)"""
    names = list(chroms.keys())
    header = {"HD": {"VN": "1.0", "SO": "coordinate"},
              "SQ": [{"SN": n, "LN": len(chroms[n])} for n in names]}
    recs = []
    for r in reads:
        a = pysam.AlignedSegment()
        a.query_name = r["name"]
        seq, cigar = "", []
        ex = r["exons"]
        g = chroms[r["chr"]]
        for i, (s, e) in enumerate(ex):
            if i > 0:
                cigar.append((3, s - ex[i - 1][1] - 1))
            seq += g[s - 1:e]
            cigar.append((0, e - s + 1))
        if r.get("polya"):
            seq += "A" * r["polya"]
            cigar.append((4, r["polya"]))
        a.query_sequence = seq
        a.flag = 0
        a.reference_id = names.index(r["chr"])
        a.reference_start = ex[0][0] - 1
        a.mapping_quality = 60
        a.cigartuples = cigar
        a.query_qualities = pysam.qualitystring_to_array("I" * len(seq))
        recs.append(a)
    recs.sort(key=lambda x: (x.reference_id, x.reference_start))
    with pysam.AlignmentFile(path, "wb", header=header) as out:
        for a in recs:
            out.write(a)
    pysam.index(path)


def run_isoquant(wd, chroms, reads, ref=None, extra=()):
    os.makedirs(wd, exist_ok=True)
    fasta, bam = os.path.join(wd, "genome.fa"), os.path.join(wd, "reads.bam")
    write_fasta(fasta, chroms)
    write_bam(bam, chroms, reads)
    home = os.path.join(wd, "home")
    os.makedirs(home, exist_ok=True)
    out = os.path.join(wd, "out")
    cmd = [sys.executable, os.path.join(REPO, "isoquant.py"), "--reference", fasta, "--bam", bam,
           "--data_type", "nanopore", "-o", out, "--threads", "1", "--no_gzip"]
    if ref:
        gtf = os.path.join(wd, "annot.gtf")
        write_gtf(gtf, ref)
        cmd += ["--genedb", gtf, "--complete_genedb"]
    cmd += list(extra)
    env = dict(os.environ, HOME=home)
    p = subprocess.run(cmd, env=env, stdout=subprocess.PIPE, stderr=subprocess.STDOUT, text=True, timeout=300)
    if p.returncode != 0:
        print(p.stdout[-3000:])
        raise RuntimeError("IsoQuant failed with code %d" % p.returncode)
    return os.path.join(out, "OUT", "OUT.transcript_models.gtf"), os.path.join(out, "OUT", "OUT.transcript_model_reads.tsv")


def parse_models(gtf_path):
    tr = collections.OrderedDict()
    for line in open(gtf_path):
        if line.startswith("#") or not line.strip():
            continue
        f = line.rstrip("\n").split("\t")
        attrs = dict((kv.strip().split(" ", 1)[0], kv.strip().split(" ", 1)[1].strip('"'))
                     for kv in f[8].split(";") if kv.strip())
        if f[2] == "transcript":
            tr[attrs["transcript_id"]] = dict(chr=f[0], strand=f[6], gene=attrs["gene_id"], exons=[])
        elif f[2] == "exon":
            tr[attrs["transcript_id"]]["exons"].append((int(f[3]), int(f[4])))
    for t in tr.values():
        t["exons"].sort()
        t["introns"] = introns_of(t["exons"])
    return tr


def introns_of(exons):
    return [(exons[i][1] + 1, exons[i + 1][0] - 1) for i in range(len(exons) - 1)]


def run_case(wd, n_background):
    H1, H2 = (1201, 1600), (1801, 2600)
    N1, N2 = (3001, 20000), (20201, 50000)
    chroms = {"chr1": make_genome(70000, plus_introns=[H1, H2, N1, N2])}
    reads = []
    for i in range(n_background):
        reads.append(dict(name="h_%d" % i, chr="chr1", polya=30, exons=[(1000, 1200), (1601, 1800), (2601, 3400)]))
    end = 64336
    for i in range(3):
        reads.append(dict(name="n_long_%d" % i, chr="chr1", polya=30,
                          exons=[(2650, 3000), (20001, 20200), (50001, end)]))
    for i in range(3):
        reads.append(dict(name="n_short_%d" % i, chr="chr1", polya=30,
                          exons=[(2900, 3000), (20001, 20200), (50001, end)]))
    gtf, _ = run_isoquant(wd, chroms, reads)
    models = parse_models(gtf)
    problems = []
    seen = {}
    for tid, t in models.items():
        print("[%d background reads] %s %s %s %s" % (n_background, tid, t["gene"], t["strand"], t["exons"]))
        if len(t["introns"]) < 2:
            continue   # mono-intron duplicates are a known issue, not reported here
        key = (t["chr"], t["strand"], tuple(t["introns"]))
        if key in seen:
            problems.append("%s and %s are both reported, same strand %s, identical intron chain %s" %
                            (seen[key], tid, t["strand"], list(key[2])))
        seen[key] = tid
    return problems


def main():
    os.makedirs(SCRATCH_ROOT, exist_ok=True)
    wd = tempfile.mkdtemp(prefix="hunt2_", dir=SCRATCH_ROOT)
    try:
        control = run_case(os.path.join(wd, "control"), 100)
        problems = run_case(os.path.join(wd, "split"), 700)
    finally:
        shutil.rmtree(wd, ignore_errors=True)
    if control:
        print("(control also shows duplicates: %s)" % control)
    if problems or control:
        print("C04 VIOLATED:")
        for p in problems + control:
            print("  " + p)
        sys.exit(1)
    print("C04 holds on this input")
    sys.exit(0)


if __name__ == "__main__":
    main()
