import os, sys, random, shutil, subprocess
import pysam

REPO = os.path.dirname(os.path.abspath(__file__))
PY = sys.executable if os.path.exists(sys.executable) else "/venv/bin/python"
SCRATCH_ROOT = "/tmp/hunt2scratch_C04"


def make_genome(length, canonical_plus=(), noncanonical=(), seed=7):
    """random sequence without homopolymer runs; GT..AG forced at canonical_plus introns,
    CC..CC forced at noncanonical introns (1-based inclusive coordinates)"""
    rnd = random.Random(seed)
    seq, last, run = [], "", 0
    for _ in range(length):
        c = rnd.choice("ACGT")
        if c == last:
            run += 1
            if run >= 3:
                c = rnd.choice([x for x in "ACGT" if x != last])
                run = 0
        else:
            run = 0
        last = c
        seq.append(c)
    for s, e in canonical_plus:
        seq[s - 1:s + 1] = "GT"
        seq[e - 2:e] = "AG"
    for s, e in noncanonical:
        seq[s - 1:s + 1] = "CC"
        seq[e - 2:e] = "CC"
    return "".join(seq)


def introns_of(exons):
    return [(exons[i][1] + 1, exons[i + 1][0] - 1) for i in range(len(exons) - 1)]


def write_inputs(wd, chrom, genome, genes, reads):
    """genes: [(gene_id, strand, [(tid, exons)])]; reads: [(name, exons, polya, polyt, mapq)]"""
    fa = os.path.join(wd, "genome.fa")
    with open(fa, "w") as f:
        f.write(">%s\n" % chrom)
        for i in range(0, len(genome), 60):
            f.write(genome[i:i + 60] + "\n")
    gtf = os.path.join(wd, "annot.gtf")
    with open(gtf, "w") as f:
        for gid, strand, transcripts in genes:
            allex = [e for t in transcripts for e in t[1]]
            f.write('%s\tsrc\tgene\t%d\t%d\t.\t%s\t.\tgene_id "%s";\n' %
                    (chrom, min(e[0] for e in allex), max(e[1] for e in allex), strand, gid))
            for tid, exons in transcripts:
                f.write('%s\tsrc\ttranscript\t%d\t%d\t.\t%s\t.\tgene_id "%s"; transcript_id "%s";\n' %
                        (chrom, exons[0][0], exons[-1][1], strand, gid, tid))
                for s, e in exons:
                    f.write('%s\tsrc\texon\t%d\t%d\t.\t%s\t.\tgene_id "%s"; transcript_id "%s";\n' %
                            (chrom, s, e, strand, gid, tid))
    header = pysam.AlignmentHeader.from_dict({"HD": {"VN": "1.0", "SO": "coordinate"},
                                              "SQ": [{"SN": chrom, "LN": len(genome)}]})
    recs = []
    for name, exons, polya, polyt, mapq in reads:
        a = pysam.AlignedSegment(header)
        a.query_name = name
        a.reference_id = 0
        a.reference_start = exons[0][0] - 1
        cigar, seq = [], ""
        if polyt:
            cigar.append((4, polyt))
            seq += "T" * polyt
        for i, (s, e) in enumerate(exons):
            if i:
                cigar.append((3, s - exons[i - 1][1] - 1))
            cigar.append((0, e - s + 1))
            seq += genome[s - 1:e]
        if polya:
            cigar.append((4, polya))
            seq += "A" * polya
        a.cigartuples = cigar
        a.query_sequence = seq
        a.query_qualities = pysam.qualitystring_to_array("I" * len(seq))
        a.mapping_quality = mapq
        a.flag = 0
        recs.append(a)
    recs.sort(key=lambda r: r.reference_start)
    bam = os.path.join(wd, "reads.bam")
    with pysam.AlignmentFile(bam, "wb", header=header) as f:
        for a in recs:
            f.write(a)
    pysam.index(bam)
    return fa, gtf, bam


def run_isoquant(wd, fa, bam, gtf=None, extra=()):
    home = os.path.join(wd, "home")
    os.makedirs(home, exist_ok=True)
    cmd = [PY, os.path.join(REPO, "isoquant.py"), "--reference", fa, "--bam", bam, "--data_type", "nanopore",
           "-o", os.path.join(wd, "out"), "--threads", "1", "--no_gzip", "--prefix", "OUT"]
    if gtf:
        cmd += ["--genedb", gtf, "--complete_genedb"]
    cmd += list(extra)
    p = subprocess.run(cmd, env=dict(os.environ, HOME=home), stdout=subprocess.PIPE, stderr=subprocess.STDOUT, text=True)
    if p.returncode != 0:
        print(p.stdout[-3000:])
        print("IsoQuant failed with exit code %d" % p.returncode)
        sys.exit(2)
    return os.path.join(wd, "out", "OUT")


def read_models(outdir):
    """tid -> dict(strand, gene, exons, introns)"""
    models = {}
    for line in open(os.path.join(outdir, "OUT.transcript_models.gtf")):
        if line.startswith("#"):
            continue
        f = line.rstrip("\n").split("\t")
        attrs = dict(kv.strip().split(" ", 1) for kv in f[8].strip().strip(";").split(";") if kv.strip())
        attrs = {k: v.strip('"') for k, v in attrs.items()}
        if f[2] == "transcript":
            models[attrs["transcript_id"]] = dict(strand=f[6], gene=attrs["gene_id"], exons=[])
        elif f[2] == "exon":
            models[attrs["transcript_id"]]["exons"].append((int(f[3]), int(f[4])))
    for m in models.values():
        m["exons"].sort()
        m["introns"] = introns_of(m["exons"])
    return models


def read_model_reads(outdir):
    res = {}
    for line in open(os.path.join(outdir, "OUT.transcript_model_reads.tsv")):
        f = line.rstrip("\n").split("\t")
        if len(f) == 2 and f[0] != "#read_id":
            res.setdefault(f[1], []).append(f[0])
    return res


def fresh_dir(name):
    wd = os.path.join(SCRATCH_ROOT, name)
    shutil.rmtree(wd, ignore_errors=True)
    os.makedirs(wd)
    return wd


# ---------------------------------------------------------------------------------------------------------------
# C04 hunt 2, finding 1: two novel 3-exon models with the SAME intron chain on the SAME strand are both reported
# (default options; the known 2-exon case is a different code path: here both models have 3 exons).
#
# An intron graph vertex may get several start vertices (one per polyT cluster plus one plain read start) and
# several end vertices (one per polyA cluster plus one plain read end). When the reads of one intron chain are
# a mixture of
#   * reads that begin early and end with a polyA tail (trusted end, plain start), and
#   * reads that begin later with a polyT head and run further to the right (trusted start, plain end),
# two full-length paths (start1, chain, polyA) and (polyT, chain, end2) exist. Neither model contains the other
# (each sticks out by > 300 bp on one side), so LongReadAssigner calls each of them inconsistent
# (major_exon_elongation) with respect to the other and detect_similar_isoforms() removes none of them.
# The reads of the second kind count as '-' reads only because the strand of a read is taken from its own
# introns and tails (AlignmentCollector.get_assignment_strand), while the strand of a model is taken from the
# introns of the path (after intron clustering) and from the annotation.
#
# Scenario A (with annotation): gene G (+), transcript T with annotated but non-canonical introns; the novel
#   chain skips exon 2 of T. Both models become '+' models of gene G.
# Scenario B (annotation-free): the chain has one canonical GT-AG intron and one non-canonical intron; the four
#   polyT reads have the first intron shifted by 2 bp (non-canonical, so these reads are '-' by their tail); the
#   shifted intron is clustered into the canonical one, so both models are '+'.
# ---------------------------------------------------------------------------------------------------------------
def check(models, bad, label):
    seen = {}
    for tid, m in models.items():
        if not (tid.endswith(".nic") or tid.endswith(".nnic")) or len(m["exons"]) < 2:
            continue
        print("%s: novel model %s strand %s gene %s exons %s" % (label, tid, m["strand"], m["gene"], m["exons"]))
        key = (m["strand"], tuple(m["introns"]))
        if key in seen:
            bad.append("%s: %s and %s are both reported on strand %s with the same intron chain %s (%d exons each)" %
                       (label, seen[key], tid, m["strand"], m["introns"], len(m["exons"])))
        seen[key] = tid


def main():
    chrom = "chr1"
    bad = []

    # scenario A
    wd = fresh_dir("demo1a")
    T = [(2000, 2400), (2701, 2900), (3201, 3400), (3701, 4300)]
    genome = make_genome(8000, noncanonical=introns_of(T) + [(2401, 3200)])
    reads = [("A_%d" % i, [(1700, 2400), (3201, 3400), (3701, 4000)], 25, 0, 60) for i in range(6)] + \
            [("B_%d" % i, [(2200, 2400), (3201, 3400), (3701, 4700)], 0, 25, 60) for i in range(6)]
    fa, gtf, bam = write_inputs(wd, chrom, genome, [("G", "+", [("T", T)])], reads)
    check(read_models(run_isoquant(wd, fa, bam, gtf)), bad, "A (annotation)")
    shutil.rmtree(wd, ignore_errors=True)

    # scenario B
    wd = fresh_dir("demo1b")
    genome = list(make_genome(8000, canonical_plus=[(2401, 3200)], noncanonical=[(3401, 3700)]))
    genome[2402:2404] = "CC"        # the intron shifted by 2 bp (2403..3200) has no canonical donor
    genome = "".join(genome)
    reads = [("A_%d" % i, [(1700, 2400), (3201, 3400), (3701, 4000)], 25, 0, 60) for i in range(8)] + \
            [("B_%d" % i, [(2200, 2402), (3201, 3400), (3701, 4700)], 0, 25, 60) for i in range(4)]
    fa, gtf, bam = write_inputs(wd, chrom, genome, [("Gfar", "+", [("Tfar", [(7000, 7200), (7401, 7600)])])], reads)
    check(read_models(run_isoquant(wd, fa, bam, None)), bad, "B (annotation-free)")
    shutil.rmtree(wd, ignore_errors=True)

    if bad:
        print("PROPERTY C04 VIOLATED (novel models are redundant):")
        for b in bad:
            print("  " + b)
        sys.exit(1)
    print("ok: no two novel models share an intron chain")
    sys.exit(0)


if __name__ == "__main__":
    main()
