#!/usr/bin/env python3
"""
C04 violation 3: a novel transcript whose introns are ALL annotated gets the suffix .nnic (instead of .nic),
depending on the coverage of an unrelated neighbouring gene.

Annotation (all on +): G1/T1 1000-3400 (highly expressed), G3/T3 exons 2650-3000, 20001-20200, 50001-50800,
G2/T2 exons 50100-50400, 51001-51600 (G2 lies inside the last exon region of G3).
4 polyA reads of a novel isoform: exons 2650-3000, 20001-20200, 50001-50400, 51001-51500, i.e. introns
(3001,20000), (20201,50000) [annotated in T3] and (50401,51000) [annotated in T2]  ->  must be ".nic".
With 700 reads on G1 the > 32768 bp read cluster is cut by AlignmentCollector.split_coverage_regions() at position
33536 (first coverage bin with coverage 4 <= 1% of 700).  get_gene_info_for_region() builds the GeneInfo of region 1
(1000..33536) from the genes overlapping that region only: G1 and G3, not G2.  The novel reads are collected in both
regions; the duplicates are resolved in favour of region 1, whose GeneInfo is serialised and used for model
construction: GraphBasedModelConstructor.known_introns = gene_info.intron_profiles.features lacks (50401,51000), the
read is classified extra_intron_novel and the model gets id_suffix .nnic.
Control: with 100 reads on G1 (no split) the very same 4 reads give "transcript1.chr1.nic".
"""
import collections, os, random, shutil, subprocess, sys, tempfile
import pysam

REPO = os.path.dirname(os.path.abspath(__file__))
SCRATCH_ROOT = "/tmp/huntscratch_C04"


def make_genome(length, plus_introns=(), minus_introns=(), noncanonical=(), seed=1):
    """random genome; GT..AG is planted at plus_introns, CT..AC at minus_introns (1-based closed intron coordinates)"""
    rnd = random.Random(seed)
    g = [rnd.choice("ACGT") for _ in range(length)]
    for (s, e) in plus_introns:
        g[s - 1:s + 1] = list("GT")
        g[e - 2:e] = list("AG")
    for (s, e) in minus_introns:
        g[s - 1:s + 1] = list("CT")
        g[e - 2:e] = list("AC")
    for (s, e) in noncanonical:
        g[s - 1:s + 1] = list("AA")
        g[e - 2:e] = list("AA")
    return "".join(g)


def write_fasta(path, chroms):
    with open(path, "w") as f:
        for name, seq in chroms.items():
            f.write(">%s\n" % name)
            for i in range(0, len(seq), 60):
                f.write(seq[i:i + 60] + "\n")


def write_gtf(path, transcripts):
    genes = collections.OrderedDict()
    for t in transcripts:
        genes.setdefault((t["chr"], t["gene"], t["strand"]), []).append(t)
    with open(path, "w") as f:
        for (c, g, st), ts in genes.items():
            gs = min(t["exons"][0][0] for t in ts)
            ge = max(t["exons"][-1][1] for t in ts)
            f.write('%s\ttest\tgene\t%d\t%d\t.\t%s\t.\tgene_id "%s";\n' % (c, gs, ge, st, g))
            for t in ts:
                f.write('%s\ttest\ttranscript\t%d\t%d\t.\t%s\t.\tgene_id "%s"; transcript_id "%s";\n' %
                        (c, t["exons"][0][0], t["exons"][-1][1], st, g, t["tid"]))
                for (s, e) in t["exons"]:
                    f.write('%s\ttest\texon\t%d\t%d\t.\t%s\t.\tgene_id "%s"; transcript_id "%s";\n' %
                            (c, s, e, st, g, t["tid"]))


def write_bam(path, chroms, reads):
    """reads: dict(name, chr, exons=[(s,e)..] 1-based closed, polya=<len of soft-clipped A tail>)"""
    names = list(chroms.keys())
    header = {"HD": {"VN": "1.0", "SO": "coordinate"},
              "SQ": [{"SN": n, "LN": len(chroms[n])} for n in names]}
    recs = []
    for r in reads:
        a = pysam.AlignedSegment()
        a.query_name = r["name"]
        seq, cigar = "", []
        ex = r["exons"]
        g = chroms[r["chr"]]
        for i, (s, e) in enumerate(ex):
            if i > 0:
                cigar.append((3, s - ex[i - 1][1] - 1))
            seq += g[s - 1:e]
            cigar.append((0, e - s + 1))
        if r.get("polya"):
            seq += "A" * r["polya"]
            cigar.append((4, r["polya"]))
        a.query_sequence = seq
        a.flag = 0
        a.reference_id = names.index(r["chr"])
        a.reference_start = ex[0][0] - 1
        a.mapping_quality = 60
        a.cigartuples = cigar
        a.query_qualities = pysam.qualitystring_to_array("I" * len(seq))
        recs.append(a)
    recs.sort(key=lambda x: (x.reference_id, x.reference_start))
    with pysam.AlignmentFile(path, "wb", header=header) as out:
        for a in recs:
            out.write(a)
    pysam.index(path)


def run_isoquant(wd, chroms, reads, ref=None, extra=()):
    os.makedirs(wd, exist_ok=True)
    fasta, bam = os.path.join(wd, "genome.fa"), os.path.join(wd, "reads.bam")
    write_fasta(fasta, chroms)
    write_bam(bam, chroms, reads)
    home = os.path.join(wd, "home")
    os.makedirs(home, exist_ok=True)
    out = os.path.join(wd, "out")
    cmd = [sys.executable, os.path.join(REPO, "isoquant.py"), "--reference", fasta, "--bam", bam,
           "--data_type", "nanopore", "-o", out, "--threads", "1", "--no_gzip"]
    if ref:
        gtf = os.path.join(wd, "annot.gtf")
        write_gtf(gtf, ref)
        cmd += ["--genedb", gtf, "--complete_genedb"]
    cmd += list(extra)
    env = dict(os.environ, HOME=home)
    p = subprocess.run(cmd, env=env, stdout=subprocess.PIPE, stderr=subprocess.STDOUT, text=True, timeout=300)
    if p.returncode != 0:
        print(p.stdout[-3000:])
        raise RuntimeError("IsoQuant failed with code %d" % p.returncode)
    return os.path.join(out, "OUT", "OUT.transcript_models.gtf"), os.path.join(out, "OUT", "OUT.transcript_model_reads.tsv")


def parse_models(gtf_path):
    tr = collections.OrderedDict()
    for line in open(gtf_path):
        if line.startswith("#") or not line.strip():
            continue
        f = line.rstrip("\n").split("\t")
        attrs = dict((kv.strip().split(" ", 1)[0], kv.strip().split(" ", 1)[1].strip('"'))
                     for kv in f[8].split(";") if kv.strip())
        if f[2] == "transcript":
            tr[attrs["transcript_id"]] = dict(chr=f[0], strand=f[6], gene=attrs["gene_id"], exons=[])
        elif f[2] == "exon":
            tr[attrs["transcript_id"]]["exons"].append((int(f[3]), int(f[4])))
    for t in tr.values():
        t["exons"].sort()
        t["introns"] = introns_of(t["exons"])
    return tr


def introns_of(exons):
    return [(exons[i][1] + 1, exons[i + 1][0] - 1) for i in range(len(exons) - 1)]


def run_case(wd, n_background):
    H1, H2 = (1201, 1600), (1801, 2600)
    N1, N2, K = (3001, 20000), (20201, 50000), (50401, 51000)
    chroms = {"chr1": make_genome(70000, plus_introns=[H1, H2, N1, N2, K])}
    ref = [dict(chr="chr1", gene="G1", tid="T1", strand="+", exons=[(1000, 1200), (1601, 1800), (2601, 3400)]),
           dict(chr="chr1", gene="G3", tid="T3", strand="+", exons=[(2650, 3000), (20001, 20200), (50001, 50800)]),
           dict(chr="chr1", gene="G2", tid="T2", strand="+", exons=[(50100, 50400), (51001, 51600)])]
    ref_introns = set()
    for t in ref:
        ref_introns.update(introns_of(t["exons"]))
    reads = []
    for i in range(n_background):
        reads.append(dict(name="h_%d" % i, chr="chr1", polya=30, exons=[(1000, 1200), (1601, 1800), (2601, 3400)]))
    for i in range(4):
        reads.append(dict(name="n_%d" % i, chr="chr1", polya=30,
                          exons=[(2650, 3000), (20001, 20200), (50001, 50400), (51001, 51500)]))
    gtf, _ = run_isoquant(wd, chroms, reads, ref=ref)
    problems = []
    known_ids = set(t["tid"] for t in ref)
    for tid, t in parse_models(gtf).items():
        print("[%d reads on G1] %s %s %s %s" % (n_background, tid, t["gene"], t["strand"], t["exons"]))
        if tid in known_ids or not t["introns"]:
            continue
        all_annotated = all(i in ref_introns for i in t["introns"])
        if tid.endswith(".nic") != all_annotated or tid.endswith(".nnic") == all_annotated:
            problems.append("[%d reads on G1] %s: all introns annotated = %s, but the suffix is .%s" %
                            (n_background, tid, all_annotated, tid.split(".")[-1]))
    return problems


def main():
    os.makedirs(SCRATCH_ROOT, exist_ok=True)
    wd = tempfile.mkdtemp(prefix="hunt3_", dir=SCRATCH_ROOT)
    try:
        problems = run_case(os.path.join(wd, "control"), 100) + run_case(os.path.join(wd, "split"), 700)
    finally:
        shutil.rmtree(wd, ignore_errors=True)
    if problems:
        print("C04 VIOLATED:")
        for p in problems:
            print("  " + p)
        sys.exit(1)
    print("C04 holds on this input")
    sys.exit(0)


if __name__ == "__main__":
    main()
