#!/venv/bin/python
"""
C04, third search, finding 1 (BORDERLINE - depends on how far "all model construction strategies" reaches).

Statement: "Every reported novel transcript ... carries a definite strand", quantified over
"all model construction strategies".

Input: annotation-free run, six identical 3-exon reads without polyA tails whose two introns have
non-canonical splice sites (AA..AA), model construction strategy `all` (its preset sets the reporting level
`all`, reachable with `--model_construction_strategy all --report_canonical auto`, or directly with
`--report_canonical all`).

Observed: transcript_models.gtf contains transcript1.chr1.nnic (and its gene novel_gene_chr1_2) with strand "."

Exit 1 when a novel transcript with an undefined strand is reported, 0 otherwise.
"""
import os
import random
import re
import shutil
import subprocess
import sys

import pysam

HERE = os.path.dirname(os.path.abspath(__file__))
ISOQUANT = os.path.join(HERE, "isoquant.py")
PY = "/venv/bin/python" if os.path.exists("/venv/bin/python") else sys.executable
WD = "/tmp/hunt3scratch_C04/demo1"


def main():
    shutil.rmtree(WD, ignore_errors=True)
    os.makedirs(os.path.join(WD, "home"))
    rnd = random.Random(5)
    seq = [rnd.choice("ACGT") for _ in range(6000)]
    introns = [(1201, 1499), (1701, 1999)]
    for a, b in introns:           # non-canonical splice sites on both strands
        seq[a - 1:a + 1] = "AA"
        seq[b - 2:b] = "AA"
    seq = "".join(seq)
    fasta = os.path.join(WD, "genome.fa")
    with open(fasta, "w") as f:
        f.write(">chr1\n")
        for i in range(0, len(seq), 60):
            f.write(seq[i:i + 60] + "\n")

    exons = [(1000, 1200), (1500, 1700), (2000, 2300)]
    header = pysam.AlignmentHeader.from_dict({"HD": {"VN": "1.6", "SO": "coordinate"},
                                              "SQ": [{"SN": "chr1", "LN": len(seq)}]})
    bam = os.path.join(WD, "reads.bam")
    with pysam.AlignmentFile(bam, "wb", header=header) as out:
        for i in range(6):
            a = pysam.AlignedSegment(header)
            a.query_name = "read%d" % i
            a.reference_id = 0
            a.reference_start = exons[0][0] - 1
            cigar = []
            s = ""
            for j, (st, en) in enumerate(exons):
                if j:
                    cigar.append((3, st - exons[j - 1][1] - 1))
                cigar.append((0, en - st + 1))
                s += seq[st - 1:en]
            a.cigartuples = cigar
            a.query_sequence = s
            a.flag = 0
            a.mapping_quality = 60
            out.write(a)
    pysam.index(bam)

    bad = []
    for label, opts in (("--model_construction_strategy all --report_canonical auto",
                         ["--model_construction_strategy", "all", "--report_canonical", "auto"]),
                        ("--report_canonical all", ["--report_canonical", "all"])):
        outdir = os.path.join(WD, "out_" + re.sub(r"\W+", "_", label))
        env = dict(os.environ, HOME=os.path.join(WD, "home"))
        cmd = [PY, ISOQUANT, "--reference", fasta, "--bam", bam, "--data_type", "nanopore",
               "-o", outdir, "--threads", "1", "--no_gzip"] + opts
        p = subprocess.run(cmd, env=env, stdout=subprocess.PIPE, stderr=subprocess.STDOUT, text=True)
        if p.returncode != 0:
            print("IsoQuant failed:\n" + p.stdout[-2000:])
            return 2
        gtf = os.path.join(outdir, "OUT", "OUT.transcript_models.gtf")
        for line in open(gtf):
            if line.startswith("#"):
                continue
            f = line.rstrip("\n").split("\t")
            if f[2] == "transcript":
                tid = re.search(r'transcript_id "([^"]+)"', f[8]).group(1)
                print("[%s] %s strand=%s %s-%s" % (label, tid, f[6], f[3], f[4]))
                if (tid.endswith(".nic") or tid.endswith(".nnic")) and f[6] not in "+-":
                    bad.append((label, tid, f[6]))
    if bad:
        for label, tid, strand in bad:
            print("VIOLATION: with %s the novel transcript %s is reported with strand '%s'" % (label, tid, strand))
        return 1
    print("no novel transcript with an undefined strand")
    return 0


if __name__ == "__main__":
    sys.exit(main())
