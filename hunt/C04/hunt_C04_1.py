#!/usr/bin/env python3
"""
C04 violation 1: a reported novel transcript contains an intron that no read has (and the .nic label is wrong).

Two isoforms share the intron P = (501,800):
  major (30 reads): exons 400-500, 801-1000, 2013-2500            introns P, A' = (1001,2012)
  minor ( 4 reads): exons 400-500, 801-1000, 2001-2008, 3001-3300 introns P, A = (1001,2000), B = (2009,3000)
                    (8 bp micro-exon 2001-2008)
A and A' are both outgoing from P, differ by 12 bp at the acceptor (< graph_clustering_distance = 20) and A has
< 50% of the coverage of A', so IntronGraph.clean_tips_and_bulges() collapses A into A'.  The path of the minor
isoform becomes (P, A', B); A' = (1001,2012) and B = (2009,3000) OVERLAP.  common.get_exons()/junctions_from_blocks()
silently drop the negative-length "exon" between them, so the reported model has exons 400-500, 801-1000, 3001-3300,
i.e. the intron (1001,3000), which is present in no read at all.
With an annotation in which P, A' and B are annotated (but (1001,3000) is not) the same model is labelled ".nic".
"""
import collections, os, random, shutil, subprocess, sys, tempfile
import pysam

REPO = os.path.dirname(os.path.abspath(__file__))
SCRATCH_ROOT = "/tmp/huntscratch_C04"


def make_genome(length, plus_introns=(), minus_introns=(), noncanonical=(), seed=1):
    """random genome; GT..AG is planted at plus_introns, CT..AC at minus_introns (1-based closed intron coordinates)"""
    rnd = random.Random(seed)
    g = [rnd.choice("ACGT") for _ in range(length)]
    for (s, e) in plus_introns:
        g[s - 1:s + 1] = list("GT")
        g[e - 2:e] = list("AG")
    for (s, e) in minus_introns:
        g[s - 1:s + 1] = list("CT")
        g[e - 2:e] = list("AC")
    for (s, e) in noncanonical:
        g[s - 1:s + 1] = list("AA")
        g[e - 2:e] = list("AA")
    return "".join(g)


def write_fasta(path, chroms):
    with open(path, "w") as f:
        for name, seq in chroms.items():
            f.write(">%s\n" % name)
            for i in range(0, len(seq), 60):
                f.write(seq[i:i + 60] + "\n")


def write_gtf(path, transcripts):
    genes = collections.OrderedDict()
    for t in transcripts:
        genes.setdefault((t["chr"], t["gene"], t["strand"]), []).append(t)
    with open(path, "w") as f:
        for (c, g, st), ts in genes.items():
            gs = min(t["exons"][0][0] for t in ts)
            ge = max(t["exons"][-1][1] for t in ts)
            f.write('%s\ttest\tgene\t%d\t%d\t.\t%s\t.\tgene_id "%s";\n' % (c, gs, ge, st, g))
            for t in ts:
                f.write('%s\ttest\ttranscript\t%d\t%d\t.\t%s\t.\tgene_id "%s"; transcript_id "%s";\n' %
                        (c, t["exons"][0][0], t["exons"][-1][1], st, g, t["tid"]))
                for (s, e) in t["exons"]:
                    f.write('%s\ttest\texon\t%d\t%d\t.\t%s\t.\tgene_id "%s"; transcript_id "%s";\n' %
                            (c, s, e, st, g, t["tid"]))


def write_bam(path, chroms, reads):
    """reads: dict(name, chr, exons=[(s,e)..] 1-based closed, polya=<len of soft-clipped A tail>)"""
    names = list(chroms.keys())
    header = {"HD": {"VN": "1.0", "SO": "coordinate"},
              "SQ": [{"SN": n, "LN": len(chroms[n])} for n in names]}
    recs = []
    for r in reads:
        a = pysam.AlignedSegment()
        a.query_name = r["name"]
        seq, cigar = "", []
        ex = r["exons"]
        g = chroms[r["chr"]]
        for i, (s, e) in enumerate(ex):
            if i > 0:
                cigar.append((3, s - ex[i - 1][1] - 1))
            seq += g[s - 1:e]
            cigar.append((0, e - s + 1))
        if r.get("polya"):
            seq += "A" * r["polya"]
            cigar.append((4, r["polya"]))
        a.query_sequence = seq
        a.flag = 0
        a.reference_id = names.index(r["chr"])
        a.reference_start = ex[0][0] - 1
        a.mapping_quality = 60
        a.cigartuples = cigar
        a.query_qualities = pysam.qualitystring_to_array("I" * len(seq))
        recs.append(a)
    recs.sort(key=lambda x: (x.reference_id, x.reference_start))
    with pysam.AlignmentFile(path, "wb", header=header) as out:
        for a in recs:
            out.write(a)
    pysam.index(path)


def run_isoquant(wd, chroms, reads, ref=None, extra=()):
    os.makedirs(wd, exist_ok=True)
    fasta, bam = os.path.join(wd, "genome.fa"), os.path.join(wd, "reads.bam")
    write_fasta(fasta, chroms)
    write_bam(bam, chroms, reads)
    home = os.path.join(wd, "home")
    os.makedirs(home, exist_ok=True)
    out = os.path.join(wd, "out")
    cmd = [sys.executable, os.path.join(REPO, "isoquant.py"), "--reference", fasta, "--bam", bam,
           "--data_type", "nanopore", "-o", out, "--threads", "1", "--no_gzip"]
    if ref:
        gtf = os.path.join(wd, "annot.gtf")
        write_gtf(gtf, ref)
        cmd += ["--genedb", gtf, "--complete_genedb"]
    cmd += list(extra)
    env = dict(os.environ, HOME=home)
    p = subprocess.run(cmd, env=env, stdout=subprocess.PIPE, stderr=subprocess.STDOUT, text=True, timeout=300)
    if p.returncode != 0:
        print(p.stdout[-3000:])
        raise RuntimeError("IsoQuant failed with code %d" % p.returncode)
    return os.path.join(out, "OUT", "OUT.transcript_models.gtf"), os.path.join(out, "OUT", "OUT.transcript_model_reads.tsv")


def parse_models(gtf_path):
    tr = collections.OrderedDict()
    for line in open(gtf_path):
        if line.startswith("#") or not line.strip():
            continue
        f = line.rstrip("\n").split("\t")
        attrs = dict((kv.strip().split(" ", 1)[0], kv.strip().split(" ", 1)[1].strip('"'))
                     for kv in f[8].split(";") if kv.strip())
        if f[2] == "transcript":
            tr[attrs["transcript_id"]] = dict(chr=f[0], strand=f[6], gene=attrs["gene_id"], exons=[])
        elif f[2] == "exon":
            tr[attrs["transcript_id"]]["exons"].append((int(f[3]), int(f[4])))
    for t in tr.values():
        t["exons"].sort()
        t["introns"] = introns_of(t["exons"])
    return tr


def introns_of(exons):
    return [(exons[i][1] + 1, exons[i + 1][0] - 1) for i in range(len(exons) - 1)]


def corrected_read_introns(bed_path):
    res = set()
    for line in open(bed_path):
        if line.startswith("#"):
            continue
        f = line.rstrip("\n").split("\t")
        start = int(f[1])
        sizes = [int(x) for x in f[10].strip(",").split(",")]
        starts = [int(x) for x in f[11].strip(",").split(",")]
        exons = [(start + s + 1, start + s + l) for s, l in zip(starts, sizes)]
        res.update(introns_of(exons))
    return res


def main():
    os.makedirs(SCRATCH_ROOT, exist_ok=True)
    wd = tempfile.mkdtemp(prefix="hunt1_", dir=SCRATCH_ROOT)
    problems = []
    try:
        P, A, A2, B = (501, 800), (1001, 2000), (1001, 2012), (2009, 3000)
        chroms = {"chr1": make_genome(8000, plus_introns=[P, A, A2, B])}
        reads = []
        for i in range(4):
            reads.append(dict(name="minor_%d" % i, chr="chr1", polya=30,
                              exons=[(400, 500), (801, 1000), (2001, 2008), (3001, 3300)]))
        for i in range(30):
            reads.append(dict(name="major_%d" % i, chr="chr1", polya=30,
                              exons=[(400, 500), (801, 1000), (2013, 2500)]))
        raw_introns = set()
        for r in reads:
            raw_introns.update(introns_of(r["exons"]))

        ref = [dict(chr="chr1", gene="G1", tid="T1", strand="+", exons=[(400, 500), (801, 1000), (2013, 2500)]),
               dict(chr="chr1", gene="G1", tid="T2", strand="+", exons=[(1900, 2008), (3001, 3300)])]
        ref_introns = set()
        for t in ref:
            ref_introns.update(introns_of(t["exons"]))

        for label, annotation in (("annotation-free", None), ("annotated", ref)):
            gtf, _ = run_isoquant(os.path.join(wd, label), chroms, reads, ref=annotation)
            evidence = raw_introns | corrected_read_introns(gtf.replace(".transcript_models.gtf", ".corrected_reads.bed"))
            known_ids = set(t["tid"] for t in (annotation or []))
            for tid, t in parse_models(gtf).items():
                if tid in known_ids:
                    continue
                print("[%s] novel model %s %s %s" % (label, tid, t["strand"], t["exons"]))
                for intron in t["introns"]:
                    if intron not in evidence:
                        problems.append("[%s] %s contains intron %s that is present in no (raw or corrected) read"
                                        % (label, tid, str(intron)))
                if annotation and t["introns"]:
                    all_annotated = all(i in ref_introns for i in t["introns"])
                    if tid.endswith(".nic") != all_annotated:
                        problems.append("[%s] %s: suffix says %s but all-introns-annotated is %s (unannotated: %s)" %
                                        (label, tid, tid.split(".")[-1], all_annotated,
                                         [i for i in t["introns"] if i not in ref_introns]))
    finally:
        shutil.rmtree(wd, ignore_errors=True)

    if problems:
        print("C04 VIOLATED:")
        for p in problems:
            print("  " + p)
        sys.exit(1)
    print("C04 holds on this input")
    sys.exit(0)


if __name__ == "__main__":
    main()
