#!/venv/bin/python
"""
C12 demonstration 3: a gzipped GTF is accepted or makes IsoQuant crash depending only on the file name.

The GTF checker of IsoQuant (src/gtf2db.py, check_gtf_duplicates) treats the extensions .gz, .gzip and .bgz
(case-insensitively) as gzip-compressed and reports "Gene annotation seems to be correct", but gtf2db() then hands
the file NAME to gffutils.create_db(), which un-gzips only names ending in lower-case ".gz".  The very same
gzipped annotation therefore works as annot.gtf.gz and aborts with UnicodeDecodeError as annot.gtf.bgz
(bgzip/tabix convention), annot.gtf.gzip or annot.GTF.GZ; the plain GTF and the .gtf.gz give identical outputs.

Exit code 1 = property violated (a run failed or outputs differ), 0 = all representations give identical outputs.
"""
import os
import random
import shutil
import subprocess
import sys
import gzip
from collections import Counter

import pysam

REPO = os.path.dirname(os.path.abspath(__file__))
PY = "/venv/bin/python"
WD = "/tmp/huntscratch_C12/demo3"
N_GENES = 12


def build_inputs():
    rng = random.Random(7)
    length = 40000
    seq = [rng.choice("ACGT") for _ in range(length)]
    gtf = []
    genes = []
    for g in range(N_GENES):
        start = 1000 + g * 3000
        exons = [(start, start + 200), (start + 500, start + 700), (start + 1200, start + 1500)]
        for i in range(1, len(exons)):
            s, e = exons[i - 1][1] + 1, exons[i][0] - 1
            seq[s - 1:s + 1] = "GT"
            seq[e - 2:e] = "AG"
        gid, tid = "G%d" % g, "T%d" % g
        genes.append((gid, tid, exons))
        gtf.append('chr1\tSRC\tgene\t%d\t%d\t.\t+\t.\tgene_id "%s"; gene_name "N%d";'
                   % (exons[0][0], exons[-1][1], gid, g))
        gtf.append('chr1\tSRC\ttranscript\t%d\t%d\t.\t+\t.\tgene_id "%s"; transcript_id "%s"; '
                   'tag "basic";' % (exons[0][0], exons[-1][1], gid, tid))
        for i, (s, e) in enumerate(exons):
            gtf.append('chr1\tSRC\texon\t%d\t%d\t.\t+\t.\tgene_id "%s"; transcript_id "%s"; exon_number %d;'
                       % (s, e, gid, tid, i + 1))
    with open(os.path.join(WD, "annot.gtf"), "w") as f:
        f.write("\n".join(gtf) + "\n")
    with open(os.path.join(WD, "genome.fa"), "w") as f:
        f.write(">chr1\n")
        s = "".join(seq)
        for i in range(0, length, 60):
            f.write(s[i:i + 60] + "\n")

    header = pysam.AlignmentHeader.from_dict({"HD": {"VN": "1.0", "SO": "coordinate"},
                                              "SQ": [{"SN": "chr1", "LN": length}]})
    with pysam.AlignmentFile(os.path.join(WD, "reads.bam"), "wb", header=header) as out:
        for gid, tid, exons in genes:
            for k in range(3):
                a = pysam.AlignedSegment(header)
                a.query_name = "%s_r%d" % (tid, k)
                a.reference_id = 0
                a.reference_start = exons[0][0] - 1
                a.flag = 0
                a.mapping_quality = 60
                cigar = []
                for i, (s, e) in enumerate(exons):
                    if i:
                        cigar.append((3, s - exons[i - 1][1] - 1))
                    cigar.append((0, e - s + 1))
                cigar.append((4, 25))
                a.cigartuples = cigar
                a.query_sequence = "".join("".join(seq[s - 1:e]) for s, e in exons) + "A" * 25
                a.query_qualities = pysam.qualitystring_to_array("I" * len(a.query_sequence))
                out.write(a)
    pysam.index(os.path.join(WD, "reads.bam"))


def run_isoquant(out_name, gtf_name):
    out = os.path.join(WD, out_name)
    cmd = [PY, os.path.join(REPO, "isoquant.py"), "--reference", os.path.join(WD, "genome.fa"),
           "--genedb", os.path.join(WD, gtf_name), "--complete_genedb", "--data_type", "nanopore",
           "-o", out, "--threads", "1", "--no_gzip", "--bam", os.path.join(WD, "reads.bam")]
    env = dict(os.environ, HOME=os.path.join(WD, "home_" + out_name), PYTHONHASHSEED="0")
    os.makedirs(env["HOME"], exist_ok=True)
    p = subprocess.run(cmd, env=env, stdout=subprocess.PIPE, stderr=subprocess.STDOUT, text=True)
    return p.returncode, os.path.join(out, "OUT"), p.stdout


def records(path):
    with open(path) as f:
        return Counter(l.rstrip("\n") for l in f if not l.startswith("#"))


def main():
    if os.path.exists(WD):
        shutil.rmtree(WD)
    os.makedirs(WD)
    build_inputs()
    with open(os.path.join(WD, "annot.gtf"), "rb") as f:
        data = f.read()
    with gzip.open(os.path.join(WD, "annot.gtf.gz"), "wb") as f:
        f.write(data)
    shutil.copy(os.path.join(WD, "annot.gtf.gz"), os.path.join(WD, "annot.gtf.bgz"))

    rc, base, log = run_isoquant("plain", "annot.gtf")
    if rc != 0:
        print(log[-2000:])
        print("baseline run failed")
        sys.exit(2)
    violated = False
    for name in ("annot.gtf.gz", "annot.gtf.bgz"):
        rc, out, log = run_isoquant(name.replace(".", "_"), name)
        if rc != 0:
            violated = True
            lines = [l for l in log.split("\n") if l.strip()]
            checker = [l.split(" - ")[-1] for l in lines if "Gene annotation seems" in l]
            print("%s: IsoQuant FAILED with exit code %d; GTF checker said: %s; last line: %s"
                  % (name, rc, checker, lines[-1]))
            continue
        diff = []
        for fname in sorted(os.listdir(base)):
            if os.path.isfile(os.path.join(base, fname)) and \
                    records(os.path.join(base, fname)) != records(os.path.join(out, fname)):
                diff.append(fname)
        if diff:
            violated = True
        print("%s: run ok, files differing from the plain GTF run: %s" % (name, diff))
    shutil.rmtree(WD, ignore_errors=True)
    if violated:
        print("C12 VIOLATED: the gzipped annotation does not give the outputs of the plain GTF")
        sys.exit(1)
    print("no difference observed")
    sys.exit(0)


if __name__ == "__main__":
    main()
