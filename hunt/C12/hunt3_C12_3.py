#!/usr/bin/env python3
"""
C12, finding 3 (borderline: needs an unusual - but valid - attribute value): a GTF annotation is refused as
"corrupted", although the very same annotation is accepted as a gffutils database (and as GTF with
--no_gtf_check), so the three representations do not give identical outputs.

check_gtf_duplicates (src/gtf2db.py:199-203) decides that the file is GFF3 as soon as the attribute column of the
FIRST record contains the substring "ID=" anywhere, e.g. inside a free-text value
(note "converted from ID=gene0";). The GFF3 checker then reports every gene/transcript line of the GTF as
"Malformed GTF line (ID attribute value cannot be found)" and IsoQuant exits with code 253.

exit 1 = property violated, 0 = not violated
"""
import gzip
import os
import random
import shutil
import subprocess
import sys

import pysam

HERE = os.path.dirname(os.path.abspath(__file__))
ISOQUANT = os.path.join(HERE, "isoquant.py")
PY = "/venv/bin/python" if os.path.exists("/venv/bin/python") else sys.executable
WD = "/tmp/hunt3scratch_C12/demo3"
CHROM, CHROM_LEN = "chr1", 6000
TRANSCRIPTS = [("G1.t1", [(1000, 1200), (1500, 1700), (2100, 2400)]), ("G1.t2", [(1000, 1200), (2100, 2400)])]


def make_read(seq, name, exons):
    cigar, read_seq = [], ""
    for i, (s, e) in enumerate(exons):
        if i:
            cigar.append((3, s - exons[i - 1][1] - 1))
        cigar.append((0, e - s + 1))
        read_seq += seq[s - 1:e]
    return name, exons[0][0] - 1, cigar, read_seq


def write_bam(path, reads):
    header = {"HD": {"VN": "1.6", "SO": "coordinate"}, "SQ": [{"SN": CHROM, "LN": CHROM_LEN}]}
    with pysam.AlignmentFile(path, "wb", header=header) as out:
        for name, pos, cigar, read_seq in sorted(reads, key=lambda r: r[1]):
            a = pysam.AlignedSegment(out.header)
            a.query_name, a.flag, a.reference_id, a.reference_start = name, 0, 0, pos
            a.mapping_quality, a.cigartuples, a.query_sequence = 60, cigar, read_seq
            a.query_qualities = pysam.qualitystring_to_array("I" * len(read_seq))
            out.write(a)
    pysam.index(path)


def run(out_name, genedb, extra=()):
    out = os.path.join(WD, out_name)
    env = dict(os.environ, HOME=os.path.join(WD, "home"))
    cmd = [PY, ISOQUANT, "--reference", os.path.join(WD, "genome.fa"), "--genedb", genedb, "--complete_genedb",
           "--bam", os.path.join(WD, "reads.bam"), "--data_type", "nanopore", "-o", out, "--threads", "1",
           "--no_gzip"] + list(extra)
    p = subprocess.run(cmd, env=env, stdout=subprocess.PIPE, stderr=subprocess.STDOUT, text=True)
    if p.returncode != 0:
        err = [l.split(" - ", 2)[-1] for l in p.stdout.splitlines() if " - ERROR - " in l]
        return p.returncode, err[0] if err else p.stdout[-300:]
    res = {}
    for fn in ("OUT.read_assignments.tsv", "OUT.corrected_reads.bed", "OUT.gene_counts.tsv", "OUT.transcript_counts.tsv"):
        with open(os.path.join(out, "OUT", fn)) as f:
            res[fn] = sorted(l for l in f if not l.startswith("# "))
    return 0, res


def main():
    if os.path.exists(WD):
        shutil.rmtree(WD)
    os.makedirs(os.path.join(WD, "home"))
    rnd = random.Random(7)
    seq = "".join(rnd.choice("ACGT") for _ in range(CHROM_LEN))
    with open(os.path.join(WD, "genome.fa"), "w") as f:
        f.write(">%s\n" % CHROM)
        for i in range(0, CHROM_LEN, 60):
            f.write(seq[i:i + 60] + "\n")
    gtf = os.path.join(WD, "annot.gtf")
    lines = ['%s\ttest\tgene\t1000\t2400\t.\t+\t.\tgene_id "G1"; note "converted from ID=gene0";' % CHROM]
    for tid, exons in TRANSCRIPTS:
        lines.append('%s\ttest\ttranscript\t%d\t%d\t.\t+\t.\tgene_id "G1"; transcript_id "%s";'
                     % (CHROM, exons[0][0], exons[-1][1], tid))
        for e in exons:
            lines.append('%s\ttest\texon\t%d\t%d\t.\t+\t.\tgene_id "G1"; transcript_id "%s";' % (CHROM, e[0], e[1], tid))
    with open(gtf, "w") as f:
        f.write("\n".join(lines) + "\n")
    with gzip.open(gtf + ".gz", "wt") as f:
        f.write("\n".join(lines) + "\n")
    write_bam(os.path.join(WD, "reads.bam"),
              [make_read(seq, "%s_read%d" % (tid, i), exons) for tid, exons in TRANSCRIPTS for i in range(3)])

    # the database of the same annotation, built by IsoQuant's own converter
    db = os.path.join(WD, "annot_prebuilt.db")
    sys.path.insert(0, HERE)
    from src.gtf2db import gtf2db
    gtf2db(gtf, db, complete_db=True, check_gtf=False)

    rc_gtf, res_gtf = run("gtf", gtf)
    rc_gz, res_gz = run("gz", gtf + ".gz")
    rc_db, res_db = run("db", db)
    rc_nc, res_nc = run("nocheck", gtf, ["--no_gtf_check"])
    print("annotation as .gtf                 : exit code", rc_gtf, "" if rc_gtf == 0 else "| " + str(res_gtf))
    print("annotation as .gtf.gz              : exit code", rc_gz, "" if rc_gz == 0 else "| " + str(res_gz))
    print("annotation as pre-built .db        : exit code", rc_db)
    print("annotation as .gtf, --no_gtf_check : exit code", rc_nc)
    if rc_db == 0:
        print("   (.db run assigned %d reads)" % (len(res_db["OUT.read_assignments.tsv"]) - 1))
    violated = not (rc_gtf == rc_gz == rc_db == 0 and res_gtf == res_gz == res_db)
    if violated:
        print("VIOLATION: the same annotation as GTF / gzipped GTF / database does not give identical outputs")
    else:
        print("ok: identical outputs")
    shutil.rmtree(WD, ignore_errors=True)
    return 1 if violated else 0


if __name__ == "__main__":
    sys.exit(main())
