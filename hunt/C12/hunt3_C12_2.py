#!/usr/bin/env python3
"""
C12, finding 2: alignments split over per-chromosome BAM files (each file with the header of its own
chromosome only) cannot be processed, whereas the same records in one BAM file are processed fine.

The list of chromosomes comes from the FASTA (DatasetProcessor.get_chr_list). For every chromosome
AlignmentCollector.__init__ (src/alignment_processor.py:248-249) asks the FIRST BAM file for the length of the
chromosome (`self.bam_pairs[0][0].get_reference_length(self.chr_id)` -> KeyError 'unknown reference chr2') and
BAMOnlineMerger._set (src/alignment_processor.py:59) calls fetch(chr_id, ...) on EVERY BAM file
(-> ValueError 'invalid contig'), so a chromosome that is missing from the header of any one of the files
aborts the run - in either order of the files.

exit 1 = property violated, 0 = not violated
"""
import os
import random
import shutil
import subprocess
import sys

import pysam

HERE = os.path.dirname(os.path.abspath(__file__))
ISOQUANT = os.path.join(HERE, "isoquant.py")
PY = "/venv/bin/python" if os.path.exists("/venv/bin/python") else sys.executable
WD = "/tmp/hunt3scratch_C12/demo2"
CONTIGS = [("chr1", 6000), ("chr2", 5000)]
GENES = [("G1", "chr1", "+", [("G1.t1", [(1000, 1200), (1500, 1700), (2100, 2400)]),
                              ("G1.t2", [(1000, 1200), (2100, 2400)])]),
         ("G2", "chr2", "+", [("G2.t1", [(800, 1000), (1400, 1650), (2000, 2300)])])]


def make_read(seq, name, exons):
    cigar, read_seq = [], ""
    for i, (s, e) in enumerate(exons):
        if i:
            cigar.append((3, s - exons[i - 1][1] - 1))
        cigar.append((0, e - s + 1))
        read_seq += seq[s - 1:e]
    return name, exons[0][0] - 1, cigar, read_seq


def write_bam(path, contigs, reads):
    # reads: (chrom, (name, pos, cigar, seq))
    names = [c[0] for c in contigs]
    header = {"HD": {"VN": "1.6", "SO": "coordinate"}, "SQ": [{"SN": n, "LN": l} for n, l in contigs]}
    with pysam.AlignmentFile(path, "wb", header=header) as out:
        for chrom, (name, pos, cigar, read_seq) in sorted(reads, key=lambda r: (names.index(r[0]), r[1][1])):
            a = pysam.AlignedSegment(out.header)
            a.query_name, a.flag, a.reference_id, a.reference_start = name, 0, names.index(chrom), pos
            a.mapping_quality, a.cigartuples, a.query_sequence = 60, cigar, read_seq
            a.query_qualities = pysam.qualitystring_to_array("I" * len(read_seq))
            out.write(a)
    pysam.index(path)


def run(out_name, bams):
    out = os.path.join(WD, out_name)
    env = dict(os.environ, HOME=os.path.join(WD, "home"))
    cmd = [PY, ISOQUANT, "--reference", os.path.join(WD, "genome.fa"), "--genedb", os.path.join(WD, "annot.gtf"),
           "--complete_genedb", "--bam"] + bams + ["--data_type", "nanopore", "-o", out, "--threads", "1", "--no_gzip"]
    p = subprocess.run(cmd, env=env, stdout=subprocess.PIPE, stderr=subprocess.STDOUT, text=True)
    if p.returncode != 0:
        err = [l for l in p.stdout.splitlines() if "Error" in l or "error" in l]
        return p.returncode, err[-1] if err else p.stdout[-300:]
    res = {}
    for fn in ("OUT.read_assignments.tsv", "OUT.corrected_reads.bed", "OUT.gene_counts.tsv", "OUT.transcript_counts.tsv"):
        with open(os.path.join(out, "OUT", fn)) as f:
            res[fn] = sorted(l for l in f if not l.startswith("# "))
    return 0, res


def main():
    if os.path.exists(WD):
        shutil.rmtree(WD)
    os.makedirs(os.path.join(WD, "home"))
    rnd = random.Random(5)
    seqs = {n: "".join(rnd.choice("ACGT") for _ in range(l)) for n, l in CONTIGS}
    with open(os.path.join(WD, "genome.fa"), "w") as f:
        for n, l in CONTIGS:
            f.write(">%s\n" % n)
            for i in range(0, l, 60):
                f.write(seqs[n][i:i + 60] + "\n")
    with open(os.path.join(WD, "annot.gtf"), "w") as f:
        for gid, chrom, strand, transcripts in GENES:
            gs = min(e[0] for t in transcripts for e in t[1])
            ge = max(e[1] for t in transcripts for e in t[1])
            f.write('%s\ttest\tgene\t%d\t%d\t.\t%s\t.\tgene_id "%s";\n' % (chrom, gs, ge, strand, gid))
            for tid, exons in transcripts:
                f.write('%s\ttest\ttranscript\t%d\t%d\t.\t%s\t.\tgene_id "%s"; transcript_id "%s";\n'
                        % (chrom, exons[0][0], exons[-1][1], strand, gid, tid))
                for e in exons:
                    f.write('%s\ttest\texon\t%d\t%d\t.\t%s\t.\tgene_id "%s"; transcript_id "%s";\n'
                            % (chrom, e[0], e[1], strand, gid, tid))
    reads = []
    for gid, chrom, strand, transcripts in GENES:
        for tid, exons in transcripts:
            for i in range(3):
                reads.append((chrom, make_read(seqs[chrom], "%s_read%d" % (tid, i), exons)))

    one = os.path.join(WD, "all.bam")
    c1 = os.path.join(WD, "only_chr1.bam")
    c2 = os.path.join(WD, "only_chr2.bam")
    write_bam(one, CONTIGS, reads)
    write_bam(c1, CONTIGS[:1], [r for r in reads if r[0] == "chr1"])   # header: chr1 only
    write_bam(c2, CONTIGS[1:], [r for r in reads if r[0] == "chr2"])   # header: chr2 only

    rc_one, res_one = run("one", [one])
    rc_12, res_12 = run("c1c2", [c1, c2])
    rc_21, res_21 = run("c2c1", [c2, c1])
    print("one BAM (header chr1+chr2)            : exit code", rc_one)
    print("per-chromosome BAMs, chr1 file first  : exit code", rc_12, "" if rc_12 == 0 else "| " + str(res_12))
    print("per-chromosome BAMs, chr2 file first  : exit code", rc_21, "" if rc_21 == 0 else "| " + str(res_21))
    violated = rc_one != 0 or rc_12 != 0 or rc_21 != 0 or not (res_one == res_12 == res_21)
    if violated:
        print("VIOLATION: the same records in one BAM or split over per-chromosome BAM files do not give the same results")
    else:
        print("ok: identical results")
    shutil.rmtree(WD, ignore_errors=True)
    return 1 if violated else 0


if __name__ == "__main__":
    sys.exit(main())
