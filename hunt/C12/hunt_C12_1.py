#!/venv/bin/python
"""
C12 demonstration 1: one BAM vs. the same records split over two BAM files give different read assignments.

Input: a gene with two isoforms T1/T2 that share their first two exons.  Read "dup" has two alignment records at
the same locus with identical reference start and end (a primary one and a secondary one that places the splice
junction 2 bp differently), both covering only the shared exons, i.e. both are "ambiguous" between T1 and T2.
Read "dup2" is the same situation in an intergenic region (three exons, primary + secondary record with equal
start/end): here MultimapResolver.select_noninformative breaks the tie by "first record wins".
Three ordinary reads accompany them.

Run A: all records in one coordinate-sorted BAM (primary record written before the secondary one).
Run B: the same records partitioned into two BAM files (secondary record in the first file, primary in the second).

IsoQuant keeps only the FIRST of such "duplicated" records (MultimapResolver.find_duplicates); the order of the
records is the file order for one BAM but (start, end, index of the BAM file) for several BAMs
(alignment_processor.make_alignment_tuple), so the reported exons/events/strand of read "dup" and its corrected
alignment depend on the partition.

Exit code 1 = property violated, 0 = outputs are identical.
"""
import os
import random
import shutil
import subprocess
import sys
from collections import Counter

import pysam

REPO = os.path.dirname(os.path.abspath(__file__))
PY = "/venv/bin/python"
WD = "/tmp/huntscratch_C12/demo1"


def build_inputs():
    rng = random.Random(5)
    length = 20000
    seq = [rng.choice("ACGT") for _ in range(length)]
    t1 = [(1000, 1200), (1500, 1700), (2500, 2700)]
    t2 = [(1000, 1200), (1500, 1700), (3500, 3700)]
    for t in (t1, t2):
        for i in range(1, len(t)):
            s, e = t[i - 1][1] + 1, t[i][0] - 1  # intron, 1-based closed
            seq[s - 1:s + 1] = "GT"
            seq[e - 2:e] = "AG"
    with open(os.path.join(WD, "genome.fa"), "w") as f:
        f.write(">chr1\n")
        s = "".join(seq)
        for i in range(0, length, 60):
            f.write(s[i:i + 60] + "\n")

    with open(os.path.join(WD, "annot.gtf"), "w") as f:
        f.write('chr1\tSRC\tgene\t1000\t3700\t.\t+\t.\tgene_id "G1"; gene_name "G1";\n')
        for tid, exons in (("T1", t1), ("T2", t2)):
            f.write('chr1\tSRC\ttranscript\t%d\t%d\t.\t+\t.\tgene_id "G1"; transcript_id "%s";\n'
                    % (exons[0][0], exons[-1][1], tid))
            for i, (s, e) in enumerate(exons):
                f.write('chr1\tSRC\texon\t%d\t%d\t.\t+\t.\tgene_id "G1"; transcript_id "%s"; exon_number %d;\n'
                        % (s, e, tid, i + 1))

    header = pysam.AlignmentHeader.from_dict({"HD": {"VN": "1.0", "SO": "coordinate"},
                                              "SQ": [{"SN": "chr1", "LN": length}]})

    def read(name, exons, flag=0, mapq=60):
        a = pysam.AlignedSegment(header)
        a.query_name = name
        a.reference_id = 0
        a.reference_start = exons[0][0] - 1
        a.flag = flag
        a.mapping_quality = mapq
        cigar = []
        for i, (s, e) in enumerate(exons):
            if i:
                cigar.append((3, s - exons[i - 1][1] - 1))
            cigar.append((0, e - s + 1))
        a.cigartuples = cigar
        a.query_sequence = "".join("".join(seq[s - 1:e]) for s, e in exons)
        a.query_qualities = pysam.qualitystring_to_array("I" * len(a.query_sequence))
        return a

    # both records: reference start 1050 (1-based), reference end 1650
    primary = read("dup", [(1050, 1200), (1500, 1650)], flag=0, mapq=60)
    secondary = read("dup", [(1050, 1202), (1502, 1650)], flag=256, mapq=0)
    # second case: an intergenic three-exon read, again a primary and a secondary record with equal start and end
    primary2 = read("dup2", [(10050, 10200), (10500, 10650), (10900, 11000)], flag=0, mapq=60)
    secondary2 = read("dup2", [(10050, 10203), (10503, 10650), (10900, 11000)], flag=256, mapq=0)
    others = [read("r%d" % i, [(1010 + i, 1200), (1500, 1700), (2500, 2600)]) for i in range(3)]

    def write(path, records):
        records = sorted(records, key=lambda r: r.reference_start)  # stable: keeps the given order of ties
        with pysam.AlignmentFile(path, "wb", header=header) as out:
            for r in records:
                out.write(r)
        pysam.index(path)

    write(os.path.join(WD, "all.bam"), [primary, secondary, primary2, secondary2] + others)
    write(os.path.join(WD, "part1.bam"), [secondary, secondary2] + others[:1])
    write(os.path.join(WD, "part2.bam"), [primary, primary2] + others[1:])


def run_isoquant(out_name, bams):
    out = os.path.join(WD, out_name)
    cmd = [PY, os.path.join(REPO, "isoquant.py"), "--reference", os.path.join(WD, "genome.fa"),
           "--genedb", os.path.join(WD, "annot.gtf"), "--complete_genedb", "--data_type", "nanopore",
           "-o", out, "--threads", "1", "--no_gzip", "--count_exons", "--bam"] + [os.path.join(WD, b) for b in bams]
    env = dict(os.environ, HOME=os.path.join(WD, "home"), PYTHONHASHSEED="0")
    p = subprocess.run(cmd, env=env, stdout=subprocess.PIPE, stderr=subprocess.STDOUT, text=True)
    if p.returncode != 0:
        print(p.stdout[-3000:])
        print("IsoQuant failed for", out_name)
        sys.exit(2)
    return os.path.join(out, "OUT")


def records(path):
    with open(path) as f:
        return Counter(l.rstrip("\n") for l in f if not l.startswith("#"))


def main():
    if os.path.exists(WD):
        shutil.rmtree(WD)
    os.makedirs(os.path.join(WD, "home"))
    build_inputs()
    one = run_isoquant("one_bam", ["all.bam"])
    two = run_isoquant("two_bams", ["part1.bam", "part2.bam"])

    violated = False
    for fname in ("OUT.read_assignments.tsv", "OUT.corrected_reads.bed", "OUT.gene_counts.tsv",
                  "OUT.transcript_counts.tsv", "OUT.exon_counts.tsv", "OUT.intron_counts.tsv"):
        a, b = records(os.path.join(one, fname)), records(os.path.join(two, fname))
        if a != b:
            violated = True
            print("DIFFERENT (as multisets of records): %s" % fname)
            for l in sorted((a - b).elements()):
                print("   one BAM  : " + l)
            for l in sorted((b - a).elements()):
                print("   two BAMs : " + l)
        else:
            print("identical: %s" % fname)

    shutil.rmtree(WD, ignore_errors=True)
    if violated:
        print("C12 VIOLATED: the same alignment records give different read assignments / corrected alignments "
              "when they are split over two BAM files")
        sys.exit(1)
    print("no difference observed")
    sys.exit(0)


if __name__ == "__main__":
    main()
