#!/usr/bin/env python3
"""
C12, second pass, finding 1.

The same five alignments are given to IsoQuant once as a single BAM file and once split over two BAM files of one
experiment (--bam p1.bam p2.bam).  All five reads start at the same position, so a coordinate-sorted BAM may hold them
in any order; the two-file run sees them in the order produced by BAMOnlineMerger (per-file order, ties broken by the
alignment end and the file index).  With --transcript_quantification with_ambiguous (also: all) every ambiguous read
adds 1/k to each of its k isoforms, and AssignedFeatureCounter accumulates these fractions in a plain float in the order
in which the reads arrive.  1 + 1/5 + 1/5 + 1/5 + 1/8 is 1.7249999999999999 in one order and 1.725 in another one,
which "%.2f" prints as 1.72 and 1.73: the ungrouped transcript count table (and the TPM table derived from it) of
the one-file run differs from the table of the two-file run although the multiset of alignments is identical.

Exit code 1 = property violated, 0 = not violated.
"""
import collections
import os
import random
import shutil
import subprocess
import sys

import pysam

REPO = os.path.dirname(os.path.abspath(__file__))
PY = "/venv/bin/python" if os.path.exists("/venv/bin/python") else sys.executable
W = "/tmp/hunt2scratch_C12/demo1"


def plant_intron(seq, start1, end1):
    seq[start1 - 1:start1 + 1] = list("GT")
    seq[end1 - 2:end1] = list("AG")


def make_read(name, exons, seq):
    cigar, s = [], []
    for i, e in enumerate(exons):
        if i > 0:
            cigar.append((3, e[0] - exons[i - 1][1] - 1))
        cigar.append((0, e[1] - e[0] + 1))
        s.append("".join(seq[e[0] - 1:e[1]]))
    return dict(name=name, pos=exons[0][0] - 1, cigar=cigar, seq="".join(s))


def write_bam(path, chr_len, reads):
    # the reads are written in the given order: all of them start at the same position, so every order is a valid
    # coordinate-sorted BAM
    header = {"HD": {"VN": "1.0", "SO": "coordinate"}, "SQ": [{"SN": "chr1", "LN": chr_len}]}
    with pysam.AlignmentFile(path, "wb", header=header) as out:
        for r in reads:
            a = pysam.AlignedSegment()
            a.query_name = r["name"]
            a.query_sequence = r["seq"]
            a.flag = 0
            a.reference_id = 0
            a.reference_start = r["pos"]
            a.mapping_quality = 60
            a.cigar = r["cigar"]
            a.query_qualities = pysam.qualitystring_to_array("I" * len(r["seq"]))
            out.write(a)
    pysam.index(path)


def run(name, bams):
    out = os.path.join(W, name)
    env = dict(os.environ)
    env["HOME"] = os.path.join(W, "home_" + name)
    os.makedirs(env["HOME"], exist_ok=True)
    cmd = [PY, os.path.join(REPO, "isoquant.py"), "-o", out, "--reference", W + "/genome.fa",
           "--genedb", W + "/annot.gtf", "--complete_genedb", "--data_type", "nanopore", "--threads", "1", "--no_gzip",
           "--no_model_construction", "--transcript_quantification", "with_ambiguous", "--bam"] + bams
    p = subprocess.run(cmd, env=env, stdout=subprocess.PIPE, stderr=subprocess.STDOUT, text=True)
    if p.returncode != 0:
        print(p.stdout[-3000:])
        print("IsoQuant failed on run", name)
        sys.exit(2)
    res = {}
    for fn in ("read_assignments.tsv", "corrected_reads.bed", "gene_counts.tsv", "transcript_counts.tsv",
               "transcript_tpm.tsv"):
        with open(os.path.join(out, "OUT", "OUT." + fn)) as f:
            res[fn] = collections.Counter(l.rstrip("\n") for l in f if not l.startswith("#"))
    return res


def main():
    if os.path.exists(W):
        shutil.rmtree(W)
    os.makedirs(W)
    rnd = random.Random(5)
    seq = [rnd.choice("ACGT") for _ in range(12000)]
    ex1, ex2a, ex2b = (1001, 1300), (2001, 2200), (2501, 2700)
    third = [(3001 + 500 * i, 3200 + 500 * i) for i in range(8)]
    # eight isoforms of one gene: all share the first exon, T1..T5 share the second exon as well
    transcripts = [("T%d" % (i + 1), [ex1, ex2a if i < 5 else ex2b, third[i]]) for i in range(8)]
    for _, exons in transcripts:
        for a, b in zip(exons[:-1], exons[1:]):
            plant_intron(seq, a[1] + 1, b[0] - 1)
    with open(W + "/genome.fa", "w") as f:
        f.write(">chr1\n")
        s = "".join(seq)
        for i in range(0, len(s), 60):
            f.write(s[i:i + 60] + "\n")
    with open(W + "/annot.gtf", "w") as f:
        f.write('chr1\tTEST\tgene\t1001\t6700\t.\t+\t.\tgene_id "G1";\n')
        for tid, exons in transcripts:
            f.write('chr1\tTEST\ttranscript\t%d\t%d\t.\t+\t.\tgene_id "G1"; transcript_id "%s";\n' %
                    (exons[0][0], exons[-1][1], tid))
            for e in exons:
                f.write('chr1\tTEST\texon\t%d\t%d\t.\t+\t.\tgene_id "G1"; transcript_id "%s";\n' % (e[0], e[1], tid))

    start = 1011
    r_unique = make_read("r_unique", [(start, 1300), ex2a, (3001, 3190)], seq)       # unique to T1: +1
    r_five = [make_read("r_five%d" % i, [(start, 1300), (2001, 2150 + i)], seq) for i in range(3)]  # T1..T5: +1/5 each
    r_eight = make_read("r_eight", [(start, 1250)], seq)                              # T1..T8: +1/8
    all_reads = [r_unique] + r_five + [r_eight]

    write_bam(W + "/all.bam", len(seq), all_reads)
    write_bam(W + "/p1.bam", len(seq), [r_five[0], r_unique])
    write_bam(W + "/p2.bam", len(seq), [r_five[1], r_five[2], r_eight])

    single = run("single", [W + "/all.bam"])
    split = run("split", [W + "/p1.bam", W + "/p2.bam"])

    bad = False
    for fn in single:
        if single[fn] != split[fn]:
            bad = True
            print("%s differs between the one-file run and the two-file run of the same alignments:" % fn)
            print("   only with --bam all.bam      :", sorted((single[fn] - split[fn]).elements()))
            print("   only with --bam p1.bam p2.bam:", sorted((split[fn] - single[fn]).elements()))
        else:
            print("%s: identical (%d records)" % (fn, sum(single[fn].values())))
    shutil.rmtree(W, ignore_errors=True)
    if bad:
        print("C12 VIOLATED: ungrouped transcript counts depend on how the alignments are distributed over BAM files")
        sys.exit(1)
    print("C12 holds on this input")
    sys.exit(0)


if __name__ == "__main__":
    main()
