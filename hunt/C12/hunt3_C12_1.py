#!/usr/bin/env python3
"""
C12, finding 1: the same short-read (Illumina) alignments given as ONE file or SPLIT over two files
(--illumina_bam A B / B A) give different corrected alignments of the long reads.

IlluminaExonCorrector.correct_exons (src/illumina_exon_corrector.py) picks, for every long-read intron, the
"best" short-read intron with `for s in self.short_introns: ... if x < score:` - self.short_introns is a
Python set that is filled in the order in which the introns are met in the files. When two short-read
introns are equally far from the long-read intron (here: donor 4 bp upstream / acceptor 4 bp downstream,
both are accepted by the "differs by 4" rule) the winner is whichever the set yields first, and that depends
on the insertion order, i.e. on how the short reads are distributed over the files and on the order of the
files on the command line.

exit 1 = property violated, 0 = not violated
"""
import os
import random
import shutil
import subprocess
import sys

import pysam

HERE = os.path.dirname(os.path.abspath(__file__))
ISOQUANT = os.path.join(HERE, "isoquant.py")
PY = "/venv/bin/python" if os.path.exists("/venv/bin/python") else sys.executable
WD = "/tmp/hunt3scratch_C12/demo1"
CHROM, CHROM_LEN = "chr1", 4000


def find_tied_introns():
    # a long-read intron (a, b) and two short-read introns (a-4, b), (a, b+4) whose order inside a set depends
    # on the insertion order (they fall into the same hash slot)
    for a in range(1101, 2000):
        for length in (100, 150, 217, 333, 500):
            b = a + length - 1
            s1, s2 = (a - 4, b), (a, b + 4)
            x = set(); x.add(s1); x.add(s2)
            y = set(); y.add(s2); y.add(s1)
            if list(x) != list(y):
                return a, b
    raise RuntimeError("no colliding pair found")


def make_read(seq, name, exons):
    # exons: 1-based closed
    cigar, read_seq = [], ""
    for i, (s, e) in enumerate(exons):
        if i:
            cigar.append((3, s - exons[i - 1][1] - 1))
        cigar.append((0, e - s + 1))
        read_seq += seq[s - 1:e]
    return name, exons[0][0] - 1, cigar, read_seq


def write_bam(path, reads):
    header = {"HD": {"VN": "1.6", "SO": "coordinate"}, "SQ": [{"SN": CHROM, "LN": CHROM_LEN}]}
    with pysam.AlignmentFile(path, "wb", header=header) as out:
        for name, pos, cigar, read_seq in sorted(reads, key=lambda r: r[1]):
            a = pysam.AlignedSegment(out.header)
            a.query_name, a.flag, a.reference_id, a.reference_start = name, 0, 0, pos
            a.mapping_quality, a.cigartuples, a.query_sequence = 60, cigar, read_seq
            a.query_qualities = pysam.qualitystring_to_array("I" * len(read_seq))
            out.write(a)
    pysam.index(path)


def run(out_name, illumina):
    out = os.path.join(WD, out_name)
    env = dict(os.environ, HOME=os.path.join(WD, "home"))
    cmd = [PY, ISOQUANT, "--reference", os.path.join(WD, "genome.fa"), "--bam", os.path.join(WD, "long.bam"),
           "--data_type", "nanopore", "-o", out, "--threads", "1", "--no_gzip", "--illumina_bam"] + illumina
    p = subprocess.run(cmd, env=env, stdout=subprocess.PIPE, stderr=subprocess.STDOUT, text=True)
    if p.returncode != 0:
        print(p.stdout[-2000:])
        raise RuntimeError("IsoQuant failed")
    with open(os.path.join(out, "OUT", "OUT.corrected_reads.bed")) as f:
        return sorted(l.rstrip("\n") for l in f if not l.startswith("#"))


def main():
    if os.path.exists(WD):
        shutil.rmtree(WD)
    os.makedirs(os.path.join(WD, "home"))
    rnd = random.Random(3)
    seq = "".join(rnd.choice("ACGT") for _ in range(CHROM_LEN))
    with open(os.path.join(WD, "genome.fa"), "w") as f:
        f.write(">%s\n" % CHROM)
        for i in range(0, CHROM_LEN, 60):
            f.write(seq[i:i + 60] + "\n")

    a, b = find_tied_introns()
    print("long-read intron %d-%d; short-read introns %d-%d (file A) and %d-%d (file B)" % (a, b, a - 4, b, a, b + 4))
    long_reads = [make_read(seq, "long%d" % i, [(1000, a - 1), (b + 1, b + 240)]) for i in range(3)]
    short_a = make_read(seq, "shortA", [(a - 45, a - 5), (b + 1, b + 60)])   # intron (a-4, b)
    short_b = make_read(seq, "shortB", [(a - 40, a - 1), (b + 5, b + 60)])   # intron (a, b+4)
    write_bam(os.path.join(WD, "long.bam"), long_reads)
    write_bam(os.path.join(WD, "ill_all.bam"), [short_a, short_b])
    write_bam(os.path.join(WD, "ill_A.bam"), [short_a])
    write_bam(os.path.join(WD, "ill_B.bam"), [short_b])

    one = run("one", [os.path.join(WD, "ill_all.bam")])
    ab = run("AB", [os.path.join(WD, "ill_A.bam"), os.path.join(WD, "ill_B.bam")])
    ba = run("BA", [os.path.join(WD, "ill_B.bam"), os.path.join(WD, "ill_A.bam")])

    for name, res in (("one file      ", one), ("files A B     ", ab), ("files B A     ", ba)):
        print(name, "->", res[0].split("\t")[9:12])
    violated = not (one == ab == ba)
    if violated:
        print("VIOLATION: corrected alignments (OUT.corrected_reads.bed) depend on how the same short-read "
              "alignments are split over files / on the order of the files")
    else:
        print("ok: identical corrected alignments")
    shutil.rmtree(WD, ignore_errors=True)
    return 1 if violated else 0


if __name__ == "__main__":
    sys.exit(main())
