#!/usr/bin/env python3
"""
C12, finding 4 (outside the LETTER of the statement, inside its title "equivalent representations of the same
input give identical results"): the same reference genome written in upper case or soft-masked (repeats in
lower case, the default of the Ensembl "dna_sm" and UCSC downloads) gives different corrected alignments.

AlignmentInfo.get_error_count (src/alignment_info.py:87) counts a mismatch when
`self.alignment.query_sequence[read_pos] != chr_record[ref_pos]` - a case-sensitive comparison of the read base
(upper case in a BAM file) with the reference base. ExonCorrector.process_events (src/exon_corrector.py:121-141)
keeps a read's own splice site that lies within delta of an annotated one only if the bases in between show no
indel and at most 1 mismatch; in a lower-case stretch of the reference EVERY base counts as a mismatch, so the
read's splice site is replaced by the annotated one.

exit 1 = outputs differ, 0 = identical
"""
import os
import random
import shutil
import subprocess
import sys

import pysam

HERE = os.path.dirname(os.path.abspath(__file__))
ISOQUANT = os.path.join(HERE, "isoquant.py")
PY = "/venv/bin/python" if os.path.exists("/venv/bin/python") else sys.executable
WD = "/tmp/hunt3scratch_C12/demo4"
CHROM, CHROM_LEN = "chr1", 4000
EXONS = [(1000, 1200), (1500, 1800)]
READ_EXONS = [(1000, 1204), (1500, 1800)]   # donor site 4 bp downstream of the annotated one, bases match the genome


def write_fasta(path, seq):
    with open(path, "w") as f:
        f.write(">%s\n" % CHROM)
        for i in range(0, len(seq), 60):
            f.write(seq[i:i + 60] + "\n")


def run(out_name, reference):
    out = os.path.join(WD, out_name)
    env = dict(os.environ, HOME=os.path.join(WD, "home"))
    cmd = [PY, ISOQUANT, "--reference", reference, "--genedb", os.path.join(WD, "annot.gtf"), "--complete_genedb",
           "--bam", os.path.join(WD, "reads.bam"), "--data_type", "nanopore", "-o", out, "--threads", "1", "--no_gzip"]
    p = subprocess.run(cmd, env=env, stdout=subprocess.PIPE, stderr=subprocess.STDOUT, text=True)
    if p.returncode != 0:
        print(p.stdout[-2000:])
        raise RuntimeError("IsoQuant failed")
    res = {}
    for fn in ("OUT.read_assignments.tsv", "OUT.corrected_reads.bed", "OUT.gene_counts.tsv", "OUT.transcript_counts.tsv"):
        with open(os.path.join(out, "OUT", fn)) as f:
            res[fn] = sorted(l.rstrip("\n") for l in f if not l.startswith("# "))
    return res


def main():
    if os.path.exists(WD):
        shutil.rmtree(WD)
    os.makedirs(os.path.join(WD, "home"))
    rnd = random.Random(11)
    seq = list("".join(rnd.choice("ACGT") for _ in range(CHROM_LEN)))
    seq[1200:1202] = "GT"   # annotated donor
    seq[1204:1206] = "GT"   # the read's donor
    seq[1497:1499] = "AG"   # acceptor
    seq = "".join(seq)
    write_fasta(os.path.join(WD, "upper.fa"), seq)
    # soft-masked: one repeat covering the exon/intron boundary
    write_fasta(os.path.join(WD, "softmasked.fa"), seq[:1150] + seq[1150:1300].lower() + seq[1300:])

    with open(os.path.join(WD, "annot.gtf"), "w") as f:
        f.write('%s\ttest\tgene\t1000\t1800\t.\t+\t.\tgene_id "G1";\n' % CHROM)
        f.write('%s\ttest\ttranscript\t1000\t1800\t.\t+\t.\tgene_id "G1"; transcript_id "G1.t1";\n' % CHROM)
        for e in EXONS:
            f.write('%s\ttest\texon\t%d\t%d\t.\t+\t.\tgene_id "G1"; transcript_id "G1.t1";\n' % (CHROM, e[0], e[1]))

    header = {"HD": {"VN": "1.6", "SO": "coordinate"}, "SQ": [{"SN": CHROM, "LN": CHROM_LEN}]}
    bam = os.path.join(WD, "reads.bam")
    with pysam.AlignmentFile(bam, "wb", header=header) as out:
        for i in range(3):
            a = pysam.AlignedSegment(out.header)
            read_seq = "".join(seq[s - 1:e] for s, e in READ_EXONS)
            a.query_name, a.flag, a.reference_id, a.reference_start = "read%d" % i, 0, 0, READ_EXONS[0][0] - 1
            a.mapping_quality, a.query_sequence = 60, read_seq
            a.cigartuples = [(0, READ_EXONS[0][1] - READ_EXONS[0][0] + 1),
                             (3, READ_EXONS[1][0] - READ_EXONS[0][1] - 1),
                             (0, READ_EXONS[1][1] - READ_EXONS[1][0] + 1)]
            a.query_qualities = pysam.qualitystring_to_array("I" * len(read_seq))
            out.write(a)
    pysam.index(bam)

    upper = run("upper", os.path.join(WD, "upper.fa"))
    soft = run("soft", os.path.join(WD, "softmasked.fa"))
    differ = False
    for fn in upper:
        if upper[fn] != soft[fn]:
            differ = True
            print("%s differs:" % fn)
            print("   upper-case genome :", [l for l in upper[fn] if l not in soft[fn]][:1])
            print("   soft-masked genome:", [l for l in soft[fn] if l not in upper[fn]][:1])
    if differ:
        print("VIOLATION (title of C12): upper-case and soft-masked copies of the same genome give different outputs")
    else:
        print("ok: identical outputs")
    shutil.rmtree(WD, ignore_errors=True)
    return 1 if differ else 0


if __name__ == "__main__":
    sys.exit(main())
