#!/venv/bin/python
"""
C12 demonstration 2 (low severity, contrived input): the same GTF WITH gene and transcript records gives
different output annotations with and without --complete_genedb.

Input: a GTF whose gene/transcript records carry the text "gffutils_derived" in the source column (column 2 is
free text in GTF; this is what gffutils itself writes for inferred records) and whose transcript records have an
attribute with several values (tag "zz"; tag "CCDS"; tag "appris"; - as in GENCODE).

Without --complete_genedb gtf2db() lets gffutils infer gene/transcript records; gffutils then finds an existing
record with exactly the same fixed fields (incl. source "gffutils_derived") and *merges* the attributes with
list(set(values)) (gffutils.create._DBCreator._do_merge called from _GTFDBCreator._update_relations with the
hard-wired "merge" strategy).  The order of the attribute values in the database changes, IsoQuant prints
attributes[key][0] (GeneInfo.set_gene_attributes), so known transcripts get another "tag" in
OUT.extended_annotation.gtf / OUT.transcript_models.gtf.  With --complete_genedb nothing is inferred or merged.

Exit code 1 = outputs differ, 0 = identical.
"""
import os
import random
import shutil
import subprocess
import sys
from collections import Counter

import pysam

REPO = os.path.dirname(os.path.abspath(__file__))
PY = "/venv/bin/python"
WD = "/tmp/huntscratch_C12/demo2"
N_GENES = 12


def build_inputs():
    rng = random.Random(7)
    length = 40000
    seq = [rng.choice("ACGT") for _ in range(length)]
    gtf = []
    genes = []
    for g in range(N_GENES):
        start = 1000 + g * 3000
        exons = [(start, start + 200), (start + 500, start + 700), (start + 1200, start + 1500)]
        for i in range(1, len(exons)):
            s, e = exons[i - 1][1] + 1, exons[i][0] - 1
            seq[s - 1:s + 1] = "GT"
            seq[e - 2:e] = "AG"
        gid, tid = "G%d" % g, "T%d" % g
        genes.append((gid, tid, exons))
        gtf.append('chr1\tgffutils_derived\tgene\t%d\t%d\t.\t+\t.\tgene_id "%s"; gene_name "N%d";'
                   % (exons[0][0], exons[-1][1], gid, g))
        gtf.append('chr1\tgffutils_derived\ttranscript\t%d\t%d\t.\t+\t.\tgene_id "%s"; transcript_id "%s"; '
                   'tag "zz%d"; tag "CCDS"; tag "appris";' % (exons[0][0], exons[-1][1], gid, tid, g))
        for i, (s, e) in enumerate(exons):
            gtf.append('chr1\tgffutils_derived\texon\t%d\t%d\t.\t+\t.\tgene_id "%s"; transcript_id "%s"; exon_number %d;'
                       % (s, e, gid, tid, i + 1))
    with open(os.path.join(WD, "annot.gtf"), "w") as f:
        f.write("\n".join(gtf) + "\n")
    with open(os.path.join(WD, "genome.fa"), "w") as f:
        f.write(">chr1\n")
        s = "".join(seq)
        for i in range(0, length, 60):
            f.write(s[i:i + 60] + "\n")

    header = pysam.AlignmentHeader.from_dict({"HD": {"VN": "1.0", "SO": "coordinate"},
                                              "SQ": [{"SN": "chr1", "LN": length}]})
    with pysam.AlignmentFile(os.path.join(WD, "reads.bam"), "wb", header=header) as out:
        for gid, tid, exons in genes:
            for k in range(3):
                a = pysam.AlignedSegment(header)
                a.query_name = "%s_r%d" % (tid, k)
                a.reference_id = 0
                a.reference_start = exons[0][0] - 1
                a.flag = 0
                a.mapping_quality = 60
                cigar = []
                for i, (s, e) in enumerate(exons):
                    if i:
                        cigar.append((3, s - exons[i - 1][1] - 1))
                    cigar.append((0, e - s + 1))
                cigar.append((4, 25))
                a.cigartuples = cigar
                a.query_sequence = "".join("".join(seq[s - 1:e]) for s, e in exons) + "A" * 25
                a.query_qualities = pysam.qualitystring_to_array("I" * len(a.query_sequence))
                out.write(a)
    pysam.index(os.path.join(WD, "reads.bam"))


def run_isoquant(out_name, complete):
    out = os.path.join(WD, out_name)
    cmd = [PY, os.path.join(REPO, "isoquant.py"), "--reference", os.path.join(WD, "genome.fa"),
           "--genedb", os.path.join(WD, "annot.gtf"), "--data_type", "nanopore",
           "-o", out, "--threads", "1", "--no_gzip", "--bam", os.path.join(WD, "reads.bam")]
    if complete:
        cmd.append("--complete_genedb")
    # separate HOME per run: no conversion cache is shared; fixed hash seed: deterministic set order
    env = dict(os.environ, HOME=os.path.join(WD, "home_" + out_name), PYTHONHASHSEED="0")
    os.makedirs(env["HOME"], exist_ok=True)
    p = subprocess.run(cmd, env=env, stdout=subprocess.PIPE, stderr=subprocess.STDOUT, text=True)
    if p.returncode != 0:
        print(p.stdout[-3000:])
        print("IsoQuant failed for", out_name)
        sys.exit(2)
    return os.path.join(out, "OUT")


def records(path):
    with open(path) as f:
        return Counter(l.rstrip("\n") for l in f if not l.startswith("#"))


def main():
    if os.path.exists(WD):
        shutil.rmtree(WD)
    os.makedirs(WD)
    build_inputs()
    complete = run_isoquant("complete", True)
    inferred = run_isoquant("inferred", False)
    violated = False
    for fname in sorted(os.listdir(complete)):
        pa, pb = os.path.join(complete, fname), os.path.join(inferred, fname)
        if not os.path.isfile(pa):
            continue
        a, b = records(pa), records(pb)
        if a != b:
            violated = True
            print("DIFFERENT: %s (%d records differ)" % (fname, sum((a - b).values())))
            for l in sorted((a - b).elements())[:2]:
                print("   --complete_genedb : " + l)
            for l in sorted((b - a).elements())[:2]:
                print("   inferred          : " + l)
    shutil.rmtree(WD, ignore_errors=True)
    if violated:
        print("C12 VIOLATED: outputs depend on --complete_genedb although gene and transcript records are present")
        sys.exit(1)
    print("no difference observed")
    sys.exit(0)


if __name__ == "__main__":
    main()
