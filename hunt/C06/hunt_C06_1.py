#!/venv/bin/python
"""
Property C06, finding 1: with default options (gzipped outputs) two repeated runs on identical inputs with identical
options do NOT produce byte-identical output files: OUT.read_assignments.tsv.gz, OUT.corrected_reads.bed.gz and
OUT.transcript_model_reads.tsv.gz differ in the MTIME field of the gzip header (bytes 4..7), because the files are
created with gzip.open(name, "wt"), which stamps the current time into the member header.
The decompressed payload is identical (also checked here), so this is purely a byte-level difference.

Exit 1 = property violated (prints what differs), exit 0 = all output files byte-identical.
"""
import gzip
import os
import random
import shutil
import subprocess
import sys
import time

import pysam

REPO = os.path.dirname(os.path.abspath(__file__))
SCRATCH = "/tmp/huntscratch_C06/hunt1"


def build_inputs(d):
    rng = random.Random(7)
    chroms = {"chr1": 12000, "chr2": 9000}
    seqs = {c: [rng.choice("ACGT") for _ in range(n)] for c, n in chroms.items()}
    genes = {"chr1": [(1001, 1200), (1601, 1800), (2401, 2700)], "chr2": [(2001, 2250), (2801, 3100)]}
    for c, exons in genes.items():
        for i in range(len(exons) - 1):
            a, b = exons[i][1] + 1, exons[i + 1][0] - 1  # intron, 1-based closed
            seqs[c][a - 1:a + 1] = "GT"
            seqs[c][b - 2:b] = "AG"
    with open(os.path.join(d, "genome.fa"), "w") as f:
        for c in chroms:
            f.write(">%s\n" % c)
            s = "".join(seqs[c])
            for i in range(0, len(s), 60):
                f.write(s[i:i + 60] + "\n")
    with open(os.path.join(d, "annot.gtf"), "w") as f:
        for c, exons in genes.items():
            g, t = "G_" + c, "T_" + c
            f.write('%s\tsyn\tgene\t%d\t%d\t.\t+\t.\tgene_id "%s";\n' % (c, exons[0][0], exons[-1][1], g))
            f.write('%s\tsyn\ttranscript\t%d\t%d\t.\t+\t.\tgene_id "%s"; transcript_id "%s";\n' %
                    (c, exons[0][0], exons[-1][1], g, t))
            for e in exons:
                f.write('%s\tsyn\texon\t%d\t%d\t.\t+\t.\tgene_id "%s"; transcript_id "%s";\n' % (c, e[0], e[1], g, t))
    header = {"HD": {"VN": "1.0", "SO": "coordinate"}, "SQ": [{"SN": c, "LN": n} for c, n in chroms.items()]}
    bam = os.path.join(d, "reads.bam")
    with pysam.AlignmentFile(bam, "wb", header=header) as out:
        n = 0
        for ci, (c, exons) in enumerate(genes.items()):
            for k in range(6):
                n += 1
                seq, cigar = "", []
                for i, e in enumerate(exons):
                    if i:
                        cigar.append((3, e[0] - exons[i - 1][1] - 1))
                    seq += "".join(seqs[c][e[0] - 1:e[1]])
                    cigar.append((0, e[1] - e[0] + 1))
                seq += "A" * 25
                cigar.append((4, 25))
                a = pysam.AlignedSegment()
                a.query_name = "read%d" % n
                a.query_sequence = seq
                a.flag = 0
                a.reference_id = ci
                a.reference_start = exons[0][0] - 1
                a.mapping_quality = 60
                a.cigar = cigar
                a.query_qualities = pysam.qualitystring_to_array("I" * len(seq))
                out.write(a)
    pysam.index(bam)


def run_isoquant(d, out):
    env = dict(os.environ, HOME=os.path.join(SCRATCH, "home"), PYTHONHASHSEED="0")
    os.makedirs(env["HOME"], exist_ok=True)
    cmd = ["/venv/bin/python", os.path.join(REPO, "isoquant.py"), "--reference", os.path.join(d, "genome.fa"),
           "--genedb", os.path.join(d, "annot.gtf"), "--complete_genedb", "--bam", os.path.join(d, "reads.bam"),
           "--data_type", "nanopore", "-o", out, "--threads", "1"]
    p = subprocess.run(cmd, env=env, stdout=subprocess.PIPE, stderr=subprocess.STDOUT, text=True, cwd=SCRATCH)
    if p.returncode != 0:
        print(p.stdout[-3000:])
        raise RuntimeError("IsoQuant failed")


def strip_cmd(data):
    return b"\n".join(l for l in data.split(b"\n") if not l.startswith(b"# Command line:"))


def main():
    if os.path.exists(SCRATCH):
        shutil.rmtree(SCRATCH)
    d = os.path.join(SCRATCH, "data")
    os.makedirs(d)
    build_inputs(d)
    # identical command line (same relative -o name, run one after the other in the same cwd)
    outs = []
    for i in range(2):
        out = os.path.join(SCRATCH, "run%d" % i, "out")
        os.makedirs(os.path.dirname(out))
        run_isoquant(d, out)
        outs.append(os.path.join(out, "OUT"))
        time.sleep(1.5)  # make sure the wall clock second changes between the runs

    bad = []
    names = sorted(f for f in os.listdir(outs[0]) if os.path.isfile(os.path.join(outs[0], f)))
    for fn in names:
        a = open(os.path.join(outs[0], fn), "rb").read()
        b = open(os.path.join(outs[1], fn), "rb").read()
        if fn.endswith(".gz"):
            if a != b:
                same_payload = strip_cmd(gzip.decompress(a)) == strip_cmd(gzip.decompress(b))
                first = next(i for i in range(min(len(a), len(b))) if a[i] != b[i])
                bad.append("%s: raw bytes differ between two identical runs (first difference at offset %d; gzip MTIME "
                           "%s vs %s); decompressed payload identical: %s" %
                           (fn, first, a[4:8].hex(), b[4:8].hex(), same_payload))
        elif strip_cmd(a) != strip_cmd(b):
            bad.append("%s: content differs" % fn)
    shutil.rmtree(SCRATCH, ignore_errors=True)
    if bad:
        print("C06 VIOLATED: repeated runs do not give byte-identical output files")
        for x in bad:
            print("  " + x)
        sys.exit(1)
    print("all output files byte-identical")
    sys.exit(0)


if __name__ == "__main__":
    main()
