#!/venv/bin/python
"""
C08 second pass, finding 1: a read that is kept on SEVERAL loci of the SAME isoform / the SAME gene is not
flagged ambiguous and is counted once per kept alignment (2.0 from a single read).

Scenario A: gene G, one isoform T1 with four exons. The BAM holds ONE read r1: primary alignment in an intergenic
            place on chr2 (uninformative) and two secondary alignments inside G (exons 1-2 and exons 3-4), both
            consistent with T1.  Consistent beats uninformative, the two consistent alignments tie -> both kept.
            Expected by the property: flagged ambiguous, total contribution of r1 to any count table <= 1.
Scenario B: gene G with isoforms T1 and T2; r1 has one secondary alignment unique to T1 and one unique to T2.
            The transcript level is flagged ambiguous, but the gene level stays "unique" twice -> gene count 2.

Exit 1 when the property is violated, 0 otherwise.
"""
import os, sys, random, shutil, subprocess
import pysam

ROOT = os.path.dirname(os.path.abspath(__file__))
WD = "/tmp/hunt2scratch_C08/demo1"


def make_genome(chroms, introns, seed=1):
    rnd = random.Random(seed)
    seqs = {}
    for name, ln in chroms:
        s = [rnd.choice("ACGT") for _ in range(ln)]
        for i in range(3, ln):
            if s[i] == s[i - 1] == s[i - 2] == s[i - 3]:
                s[i] = {"A": "C", "C": "G", "G": "T", "T": "A"}[s[i]]
        seqs[name] = s
    for c, st, en in introns:  # canonical GT..AG, plus strand, 1-based inclusive intron coordinates
        s = seqs[c]
        s[st - 1], s[st], s[en - 2], s[en - 1] = "G", "T", "A", "G"
    return {k: "".join(v) for k, v in seqs.items()}


def write_inputs(wd, chroms, seqs, genes, reads):
    os.makedirs(wd, exist_ok=True)
    order = [c for c, _ in chroms]
    with open(wd + "/genome.fa", "w") as f:
        for c in order:
            f.write(">%s\n%s\n" % (c, seqs[c]))
    with open(wd + "/annot.gtf", "w") as f:
        for chr_id, gid, transcripts in genes:
            allex = [e for t in transcripts.values() for e in t]
            f.write('%s\tsrc\tgene\t%d\t%d\t.\t+\t.\tgene_id "%s";\n' % (chr_id, min(e[0] for e in allex), max(e[1] for e in allex), gid))
            for tid, exons in transcripts.items():
                f.write('%s\tsrc\ttranscript\t%d\t%d\t.\t+\t.\tgene_id "%s"; transcript_id "%s";\n' % (chr_id, exons[0][0], exons[-1][1], gid, tid))
                for s, e in exons:
                    f.write('%s\tsrc\texon\t%d\t%d\t.\t+\t.\tgene_id "%s"; transcript_id "%s";\n' % (chr_id, s, e, gid, tid))
    header = {"HD": {"VN": "1.0", "SO": "coordinate"}, "SQ": [{"SN": c, "LN": l} for c, l in chroms]}
    reads = sorted(reads, key=lambda r: (order.index(r[1]), r[2][0][0]))
    with pysam.AlignmentFile(wd + "/reads.bam", "wb", header=header) as out:
        for name, chr_id, exons, flag, mapq in reads:
            a = pysam.AlignedSegment()
            a.query_name = name
            seq = "".join(seqs[chr_id][s - 1:e] for s, e in exons)
            a.query_sequence = seq
            a.flag = flag
            a.reference_id = order.index(chr_id)
            a.reference_start = exons[0][0] - 1
            a.mapping_quality = mapq
            ct = []
            for i, (s, e) in enumerate(exons):
                if i:
                    ct.append((3, s - exons[i - 1][1] - 1))
                ct.append((0, e - s + 1))
            a.cigartuples = ct
            a.query_qualities = pysam.qualitystring_to_array("I" * len(seq))
            out.write(a)
    pysam.index(wd + "/reads.bam")


def run(wd, extra):
    out = wd + "/out"
    shutil.rmtree(out, ignore_errors=True)
    env = dict(os.environ, HOME=wd + "/home")
    os.makedirs(env["HOME"], exist_ok=True)
    cmd = ["/venv/bin/python", ROOT + "/isoquant.py", "--reference", wd + "/genome.fa", "--genedb", wd + "/annot.gtf",
           "--complete_genedb", "--bam", wd + "/reads.bam", "--data_type", "nanopore", "-o", out, "--threads", "1",
           "--no_gzip"] + extra
    p = subprocess.run(cmd, env=env, stdout=subprocess.PIPE, stderr=subprocess.STDOUT, text=True)
    if p.returncode:
        print(p.stdout[-3000:])
        raise SystemExit("IsoQuant failed")
    rows = [l.rstrip("\n").split("\t") for l in open(out + "/OUT/OUT.read_assignments.tsv") if not l.startswith("#")]

    def counts(fn):
        d = {}
        for l in open(out + "/OUT/" + fn):
            if l.startswith("#") or l.startswith("__"):
                continue
            k, v = l.split("\t")[:2]
            d[k] = float(v)
        return d
    return rows, counts("OUT.transcript_counts.tsv"), counts("OUT.gene_counts.tsv"), counts("OUT.transcript_model_counts.tsv")


def main():
    shutil.rmtree(WD, ignore_errors=True)
    chroms = [("chr1", 6000), ("chr2", 5000)]
    inter = [(1001, 1100), (1301, 1400), (1601, 1700)]  # intergenic primary alignment on chr2
    bad = []

    # ---------------- scenario A: two loci, same isoform
    T1 = [(1001, 1200), (1501, 1700), (2001, 2200), (2501, 2700)]
    introns = [("chr1", 1201, 1500), ("chr1", 1701, 2000), ("chr1", 2201, 2500), ("chr2", 1101, 1300), ("chr2", 1401, 1600)]
    seqs = make_genome(chroms, introns)
    reads = [("r1", "chr2", inter, 0, 60),
             ("r1", "chr1", [(1051, 1200), (1501, 1650)], 256, 0),
             ("r1", "chr1", [(2051, 2200), (2501, 2650)], 256, 0)]
    write_inputs(WD + "/A", chroms, seqs, [("chr1", "G", {"T1": T1})], reads)
    for extra in ([], ["--high_memory"]):
        rows, tc, gc, mc = run(WD + "/A", extra)
        kept = [r for r in rows if r[0] == "r1"]
        mode = "--high_memory" if extra else "default"
        print("[A %s] rows of r1:" % mode)
        for r in kept:
            print("     ", r[1], r[7], r[3], r[5], r[8].split(";")[0])
        print("     transcript_counts", tc, "gene_counts", gc, "transcript_model_counts", mc)
        if len(kept) > 1 and any(r[5] not in ("ambiguous", "inconsistent_ambiguous") for r in kept):
            bad.append("[A %s] the only read r1 is kept on %d loci but is reported as '%s', not ambiguous" % (mode, len(kept), kept[0][5]))
        for name, table in (("transcript_counts", tc), ("gene_counts", gc), ("transcript_model_counts", mc)):
            if sum(table.values()) > 1.0 + 1e-6:
                bad.append("[A %s] %s: the single read r1 contributes %.2f in total (%s)" % (mode, name, sum(table.values()), table))

    # ---------------- scenario B: two loci, two isoforms of the same gene
    T1 = [(1001, 1200), (1501, 1700), (2001, 2200)]
    T2 = [(1001, 1200), (2501, 2700), (3001, 3200)]
    introns = [("chr1", 1201, 1500), ("chr1", 1701, 2000), ("chr1", 1201, 2500), ("chr1", 2701, 3000), ("chr2", 1101, 1300), ("chr2", 1401, 1600)]
    seqs = make_genome(chroms, introns)
    reads = [("r1", "chr2", inter, 0, 60),
             ("r1", "chr1", [(1551, 1700), (2001, 2150)], 256, 0),
             ("r1", "chr1", [(2551, 2700), (3001, 3150)], 256, 0)]
    write_inputs(WD + "/B", chroms, seqs, [("chr1", "G", {"T1": T1, "T2": T2})], reads)
    for extra in ([], ["--high_memory"]):
        rows, tc, gc, mc = run(WD + "/B", extra)
        kept = [r for r in rows if r[0] == "r1"]
        mode = "--high_memory" if extra else "default"
        print("[B %s] rows of r1:" % mode)
        for r in kept:
            print("     ", r[1], r[7], r[3], r[5], r[8].split(";")[0])
        print("     transcript_counts", tc, "gene_counts", gc)
        if len(kept) > 1 and any(not r[8].split(";")[0].endswith("ambiguous") for r in kept):
            bad.append("[B %s] r1 is kept on %d loci of gene G but its gene assignment is '%s'" % (mode, len(kept), kept[0][8].split(";")[0]))
        if sum(gc.values()) > 1.0 + 1e-6:
            bad.append("[B %s] gene_counts: the single read r1 contributes %.2f (%s)" % (mode, sum(gc.values()), gc))

    shutil.rmtree(WD, ignore_errors=True)
    if bad:
        print("\nPROPERTY C08 VIOLATED:")
        for b in bad:
            print("  - " + b)
        sys.exit(1)
    print("OK")
    sys.exit(0)


if __name__ == "__main__":
    main()
