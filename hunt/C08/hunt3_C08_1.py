#!/usr/bin/env python3
"""
C08 / finding 1: two retained alignments of ONE read that name the SAME isoform are both kept as `unique`
(not flagged ambiguous) and the read is counted twice (transcript_counts and gene_counts get 2.00 from one read).

Input: gene G (isoforms T1, T2) on chrA, nothing on chrB.
Read r1: primary alignment on chrB (unspliced, intergenic, MAPQ 60) and two secondary alignments in gene G,
both full splice matches of T1 (the second one is 10 bp shorter on both sides, i.e. not an exact duplicate).
"consistent beats uninformative": the primary loses, both secondaries tie.  MultimapResolver.filter_assignments
flags ambiguity only when the kept alignments name more than one isoform / gene (len(all_isoforms) > 1), so both
records stay `unique`, gene_assignment=unique, and each adds 1.0.

Exit code 1 when the property is violated, 0 otherwise.
"""
import os
import random
import shutil
import subprocess
import sys

import pysam

HERE = os.path.dirname(os.path.abspath(__file__))
ISOQUANT = os.path.join(HERE, "isoquant.py")
PY = "/venv/bin/python" if os.path.exists("/venv/bin/python") else sys.executable
WORK = "/tmp/hunt3scratch_C08/demo1"


def rand_seq(n, seed):
    r = random.Random(seed)
    return "".join(r.choice("ACGT") for _ in range(n))


def cigar(blocks):
    c = []
    for i, (s, e) in enumerate(blocks):
        if i:
            c.append((3, s - blocks[i - 1][1] - 1))
        c.append((0, e - s + 1))
    return c


def read(header, genome, name, chrom, blocks, flag, mapq):
    a = pysam.AlignedSegment(header)
    a.query_name = name
    a.reference_id = header.get_tid(chrom)
    a.reference_start = blocks[0][0] - 1
    a.flag = flag
    a.mapping_quality = mapq
    a.cigartuples = cigar(blocks)
    seq = "".join(genome[chrom][s - 1:e] for s, e in blocks)
    a.query_sequence = seq
    a.query_qualities = pysam.qualitystring_to_array("I" * len(seq))
    return a


def table(path):
    return [l.rstrip("\n").split("\t") for l in open(path) if not l.startswith("#") and not l.startswith("__")]


def main():
    shutil.rmtree(WORK, ignore_errors=True)
    os.makedirs(os.path.join(WORK, "home"))
    genome = {"chrA": rand_seq(6000, 1), "chrB": rand_seq(5000, 2)}
    with open(os.path.join(WORK, "genome.fa"), "w") as f:
        for k, v in genome.items():
            f.write(">%s\n%s\n" % (k, v))
    T1 = [(1001, 1200), (1501, 1700), (2001, 2300)]
    T2 = [(1001, 1200), (2001, 2300)]
    with open(os.path.join(WORK, "annot.gtf"), "w") as f:
        f.write('chrA\tsrc\tgene\t1001\t2300\t.\t+\t.\tgene_id "G";\n')
        for tid, exons in (("T1", T1), ("T2", T2)):
            f.write('chrA\tsrc\ttranscript\t1001\t2300\t.\t+\t.\tgene_id "G"; transcript_id "%s";\n' % tid)
            for s, e in exons:
                f.write('chrA\tsrc\texon\t%d\t%d\t.\t+\t.\tgene_id "G"; transcript_id "%s";\n' % (s, e, tid))
    header = pysam.AlignmentHeader.from_dict({"HD": {"VN": "1.0", "SO": "coordinate"},
                                              "SQ": [{"SN": k, "LN": len(v)} for k, v in genome.items()]})
    recs = [read(header, genome, "r1", "chrA", T1, 256, 0),
            read(header, genome, "r1", "chrA", [(1011, 1200), (1501, 1700), (2001, 2290)], 256, 0),
            read(header, genome, "r1", "chrB", [(501, 1100)], 0, 60)]
    bam = os.path.join(WORK, "reads.bam")
    with pysam.AlignmentFile(bam, "wb", header=header) as f:
        for a in recs:
            f.write(a)
    pysam.index(bam)

    violated = False
    for extra in ([], ["--high_memory"]):
        out = os.path.join(WORK, "out_hm" if extra else "out")
        cmd = [PY, ISOQUANT, "--reference", os.path.join(WORK, "genome.fa"), "--genedb", os.path.join(WORK, "annot.gtf"),
               "--complete_genedb", "--bam", bam, "--data_type", "nanopore", "-o", out, "--threads", "1",
               "--no_gzip"] + extra
        p = subprocess.run(cmd, env=dict(os.environ, HOME=os.path.join(WORK, "home")), stdout=subprocess.PIPE,
                           stderr=subprocess.STDOUT, text=True)
        if p.returncode != 0:
            print(p.stdout[-3000:])
            print("IsoQuant failed")
            return 2
        d = os.path.join(out, "OUT")
        rows = [r for r in table(os.path.join(d, "OUT.read_assignments.tsv")) if r[0] == "r1"]
        tc = {r[0]: float(r[1]) for r in table(os.path.join(d, "OUT.transcript_counts.tsv"))}
        gc = {r[0]: float(r[1]) for r in table(os.path.join(d, "OUT.gene_counts.tsv"))}
        print("mode:", "--high_memory" if extra else "default")
        print("  the input holds exactly 1 read (r1, 3 alignment records)")
        for r in rows:
            print("  read_assignments: %s %s isoform=%s type=%s exons=%s %s" % (r[0], r[1], r[3], r[5], r[7],
                                                                                r[8].split(";")[0]))
        print("  transcript_counts:", tc, " gene_counts:", gc)
        if sum(tc.values()) > 1.0 + 1e-6 or sum(gc.values()) > 1.0 + 1e-6:
            print("  VIOLATION: one read contributes %.2f to transcript_counts and %.2f to gene_counts (> 1)"
                  % (sum(tc.values()), sum(gc.values())))
            violated = True
        if len(rows) > 1 and all(r[5] == "unique" for r in rows):
            print("  VIOLATION: the read is kept on %d alignments, none of them is flagged ambiguous" % len(rows))
            violated = True
    shutil.rmtree(WORK, ignore_errors=True)
    return 1 if violated else 0


if __name__ == "__main__":
    sys.exit(main())
