#!/venv/bin/python
"""
C08 second pass, finding 3 (borderline: same PHENOMENON as the recorded "weight 1.0 on every tied locus" finding, but
in another count table and through another code path, so the recorded root cause / its repair does not cover it).

transcript_model_counts.tsv: a read kept on two tied loci (flagged ambiguous by the resolver) is counted 1.0 for the
transcript model of EACH locus, because GraphBasedModelConstructor.forward_counts() decides "unique vs ambiguous" from
read_assignment_counts, which is local to one gene region; add_read_info_raw(read_id, [one model]) then adds 1.0.

Input: paralogous loci on chr1 and chr2 (same exon structure), three primary reads on each that skip exon 3 (novel
isoform -> one novel model per locus), and read r1 whose primary alignment is intergenic on chr3 and whose two
secondary alignments (MAPQ 60) lie on the two loci.  7 reads in total, so no table may sum to more than 7.

Exit 1 when the property is violated, 0 otherwise.
"""
import os, sys, random, shutil, subprocess
import pysam

ROOT = os.path.dirname(os.path.abspath(__file__))
WD = "/tmp/hunt2scratch_C08/demo3"
CHROMS = [("chr1", 6000), ("chr2", 6000), ("chr3", 5000)]
ORDER = [c for c, _ in CHROMS]
T = [(1001, 1200), (1501, 1700), (2001, 2200), (2501, 2700)]
NOVEL = [(1001, 1200), (1501, 1700), (2501, 2700)]
INTRONS = [(c, s, e) for c in ("chr1", "chr2") for s, e in ((1201, 1500), (1701, 2000), (2201, 2500), (1701, 2500))] + \
          [("chr3", 1101, 1300), ("chr3", 1401, 1600)]


def make_genome(seed=1):
    rnd = random.Random(seed)
    seqs = {}
    for name, ln in CHROMS:
        s = [rnd.choice("ACGT") for _ in range(ln)]
        for i in range(3, ln):
            if s[i] == s[i - 1] == s[i - 2] == s[i - 3]:
                s[i] = {"A": "C", "C": "G", "G": "T", "T": "A"}[s[i]]
        seqs[name] = s
    for c, st, en in INTRONS:
        s = seqs[c]
        s[st - 1], s[st], s[en - 2], s[en - 1] = "G", "T", "A", "G"
    return {k: "".join(v) for k, v in seqs.items()}


def write_bam(path, seqs, reads):
    header = {"HD": {"VN": "1.0", "SO": "coordinate"}, "SQ": [{"SN": c, "LN": l} for c, l in CHROMS]}
    reads = sorted(reads, key=lambda r: (ORDER.index(r[1]), r[2][0][0]))
    with pysam.AlignmentFile(path, "wb", header=header) as out:
        for name, chr_id, exons, flag, mapq, polya in reads:
            a = pysam.AlignedSegment()
            a.query_name = name
            seq = "".join(seqs[chr_id][s - 1:e] for s, e in exons) + "A" * polya
            a.query_sequence = seq
            a.flag = flag
            a.reference_id = ORDER.index(chr_id)
            a.reference_start = exons[0][0] - 1
            a.mapping_quality = mapq
            ct = []
            for i, (s, e) in enumerate(exons):
                if i:
                    ct.append((3, s - exons[i - 1][1] - 1))
                ct.append((0, e - s + 1))
            if polya:
                ct.append((4, polya))
            a.cigartuples = ct
            a.query_qualities = pysam.qualitystring_to_array("I" * len(seq))
            out.write(a)
    pysam.index(path)


def main():
    shutil.rmtree(WD, ignore_errors=True)
    os.makedirs(WD + "/home")
    seqs = make_genome()
    with open(WD + "/genome.fa", "w") as f:
        for c in ORDER:
            f.write(">%s\n%s\n" % (c, seqs[c]))
    with open(WD + "/annot.gtf", "w") as f:
        for c, g, t in (("chr1", "G1", "T1"), ("chr2", "G2", "T2")):
            f.write('%s\tsrc\tgene\t1001\t2700\t.\t+\t.\tgene_id "%s";\n' % (c, g))
            f.write('%s\tsrc\ttranscript\t1001\t2700\t.\t+\t.\tgene_id "%s"; transcript_id "%s";\n' % (c, g, t))
            for s, e in T:
                f.write('%s\tsrc\texon\t%d\t%d\t.\t+\t.\tgene_id "%s"; transcript_id "%s";\n' % (c, s, e, g, t))
    reads = [("r1", "chr3", [(1001, 1100), (1301, 1400), (1601, 1700)], 0, 60, 0),
             ("r1", "chr1", NOVEL, 256, 60, 25),
             ("r1", "chr2", NOVEL, 256, 60, 25)]
    for i in range(3):
        reads.append(("a%d" % i, "chr1", NOVEL, 0, 60, 25))
        reads.append(("b%d" % i, "chr2", NOVEL, 0, 60, 25))
    n_reads = len(set(r[0] for r in reads))
    write_bam(WD + "/reads.bam", seqs, reads)
    bad = []
    for extra in ([], ["--high_memory"]):
        out = WD + "/out"
        shutil.rmtree(out, ignore_errors=True)
        cmd = ["/venv/bin/python", ROOT + "/isoquant.py", "--reference", WD + "/genome.fa", "--genedb", WD + "/annot.gtf",
               "--complete_genedb", "--bam", WD + "/reads.bam", "--data_type", "nanopore", "-o", out, "--threads", "1",
               "--no_gzip"] + extra
        p = subprocess.run(cmd, env=dict(os.environ, HOME=WD + "/home"), stdout=subprocess.PIPE, stderr=subprocess.STDOUT, text=True)
        if p.returncode:
            print(p.stdout[-3000:])
            raise SystemExit("IsoQuant failed")
        mode = "--high_memory" if extra else "default"
        counts = {}
        for l in open(out + "/OUT/OUT.transcript_model_counts.tsv"):
            if l.startswith("#"):
                continue
            k, v = l.rstrip("\n").split("\t")
            counts[k] = float(v)
        r1_models = [l.rstrip("\n").split("\t")[1] for l in open(out + "/OUT/OUT.transcript_model_reads.tsv") if l.startswith("r1\t")]
        r1_rows = [l.rstrip("\n").split("\t") for l in open(out + "/OUT/OUT.read_assignments.tsv") if l.startswith("r1\t")]
        print("[%s] r1 rows: %s" % (mode, [(r[1], r[5]) for r in r1_rows]))
        print("[%s] transcript_model_counts: %s ; models of r1: %s" % (mode, counts, r1_models))
        total = sum(v for k, v in counts.items())
        if total > n_reads + 1e-6:
            bad.append("[%s] transcript_model_counts sums to %.2f for %d reads; r1 is counted 1.0 on each of %s" %
                       (mode, total, n_reads, r1_models))
    shutil.rmtree(WD, ignore_errors=True)
    if bad:
        print("\nPROPERTY C08 VIOLATED:")
        for b in bad:
            print("  - " + b)
        sys.exit(1)
    print("OK")
    sys.exit(0)


if __name__ == "__main__":
    main()
