#!/usr/bin/env python3
"""
C08 / finding 2: a LOSING (suppressed) alignment still changes transcript construction: the read is resolved to one
single alignment, but that alignment is marked as a multimapper and dropped from transcript construction whenever its
own assignment names two isoforms of the locus.

Input: gene G on chrA with isoforms T1 (e1,e2,e3,e4,e5) and T2 (e0,e2,e3,e4,e5) - alternative first exon.
Eight reads n0..n7 (primary, MAPQ 60, polyA tail) start inside e2, skip e3 and end at the polyA site of e5: a novel
isoform; each read is `inconsistent_ambiguous` (it contradicts T1 and T2 equally, they differ only in the first exon).
Eight reads c0..c7 are full splice matches of T1.
Run A: these reads only                        -> novel transcript (e2', e4, e5) is reported, supported by 8 reads.
Run B: every n-read additionally has a secondary alignment on chrB (spliced, intergenic = uninformative, MAPQ 0).
       "inconsistent beats uninformative": the secondary loses and is suppressed, exactly one alignment per read is
       kept, read_assignments.tsv is identical to run A ... but the novel transcript is gone.
Control (annotation with T1 only, so the n-reads are `inconsistent` to ONE isoform): runs A and B agree.

Cause: MultimapResolver.filter_assignments derives "ambiguous" from the number of isoforms named by the kept
alignments (len(all_isoforms) > 1) even when a single alignment is kept, and then sets assignment.multimapper = True;
intron_graph.py / IntronPathStorage.fill skip all reads with multimapper == True.

Exit code 1 when the property is violated, 0 otherwise.
"""
import os
import random
import shutil
import subprocess
import sys

import pysam

HERE = os.path.dirname(os.path.abspath(__file__))
ISOQUANT = os.path.join(HERE, "isoquant.py")
PY = "/venv/bin/python" if os.path.exists("/venv/bin/python") else sys.executable
WORK = "/tmp/hunt3scratch_C08/demo2"

E = {0: (401, 600), 1: (1001, 1200), 2: (1501, 1700), 3: (2001, 2200), 4: (2501, 2700), 5: (3001, 3300)}
T1 = [E[1], E[2], E[3], E[4], E[5]]
T2 = [E[0], E[2], E[3], E[4], E[5]]
NOVEL = [(1521, 1700), E[4], E[5]]
INTERGENIC = [(5001, 5200), (5501, 5700), (6001, 6300)]


def introns(blocks):
    return [(blocks[i][1] + 1, blocks[i + 1][0] - 1) for i in range(len(blocks) - 1)]


def rand_seq(n, seed, canonical_introns):
    r = random.Random(seed)
    s = [r.choice("ACGT") for _ in range(n)]
    for a, b in canonical_introns:
        s[a - 1:a + 1] = "GT"
        s[b - 2:b] = "AG"
    return "".join(s)


def read(header, genome, name, chrom, blocks, flag, mapq, tail=""):
    a = pysam.AlignedSegment(header)
    a.query_name = name
    a.reference_id = header.get_tid(chrom)
    a.reference_start = blocks[0][0] - 1
    a.flag = flag
    a.mapping_quality = mapq
    c = []
    for i, (s, e) in enumerate(blocks):
        if i:
            c.append((3, s - blocks[i - 1][1] - 1))
        c.append((0, e - s + 1))
    if tail:
        c.append((4, len(tail)))
    a.cigartuples = c
    seq = "".join(genome[chrom][s - 1:e] for s, e in blocks) + tail
    a.query_sequence = seq
    a.query_qualities = pysam.qualitystring_to_array("I" * len(seq))
    return a


def write_gtf(path, transcripts):
    with open(path, "w") as f:
        lo = min(x[0][0] for x in transcripts.values())
        hi = max(x[-1][1] for x in transcripts.values())
        f.write('chrA\tsrc\tgene\t%d\t%d\t.\t+\t.\tgene_id "G";\n' % (lo, hi))
        for tid, exons in transcripts.items():
            f.write('chrA\tsrc\ttranscript\t%d\t%d\t.\t+\t.\tgene_id "G"; transcript_id "%s";\n'
                    % (exons[0][0], exons[-1][1], tid))
            for s, e in exons:
                f.write('chrA\tsrc\texon\t%d\t%d\t.\t+\t.\tgene_id "G"; transcript_id "%s";\n' % (s, e, tid))


def run(tag, gtf, with_losing_secondaries, genome, header):
    d = os.path.join(WORK, tag)
    os.makedirs(d)
    recs = []
    for i in range(8):
        recs.append(read(header, genome, "n%d" % i, "chrA", NOVEL, 0, 60, tail="A" * 30))
        if with_losing_secondaries:
            recs.append(read(header, genome, "n%d" % i, "chrB", INTERGENIC, 256, 0))
        recs.append(read(header, genome, "c%d" % i, "chrA", T1, 0, 60, tail="A" * 30))
    recs.sort(key=lambda a: (a.reference_id, a.reference_start))
    bam = os.path.join(d, "reads.bam")
    with pysam.AlignmentFile(bam, "wb", header=header) as f:
        for a in recs:
            f.write(a)
    pysam.index(bam)
    cmd = [PY, ISOQUANT, "--reference", os.path.join(WORK, "genome.fa"), "--genedb", gtf, "--complete_genedb",
           "--bam", bam, "--data_type", "nanopore", "-o", os.path.join(d, "out"), "--threads", "1", "--no_gzip"]
    p = subprocess.run(cmd, env=dict(os.environ, HOME=os.path.join(WORK, "home")), stdout=subprocess.PIPE,
                       stderr=subprocess.STDOUT, text=True)
    if p.returncode != 0:
        print(p.stdout[-3000:])
        raise SystemExit(2)
    o = os.path.join(d, "out", "OUT")
    assignments = sorted(tuple(l.rstrip("\n").split("\t")[:8]) for l in open(os.path.join(o, "OUT.read_assignments.tsv"))
                         if not l.startswith("#"))
    bed = sorted(l for l in open(os.path.join(o, "OUT.corrected_reads.bed")) if not l.startswith("#"))
    novel = sorted((l.split("\t")[3], l.split("\t")[4]) for l in open(os.path.join(o, "OUT.transcript_models.gtf"))
                   if not l.startswith("#") and l.split("\t")[1] == "IsoQuant" and l.split("\t")[2] == "exon")
    counts = sorted(l.strip() for l in open(os.path.join(o, "OUT.transcript_model_counts.tsv")) if not l.startswith("#"))
    return assignments, bed, novel, counts


def main():
    shutil.rmtree(WORK, ignore_errors=True)
    os.makedirs(os.path.join(WORK, "home"))
    genome = {"chrA": rand_seq(9000, 1, introns(T1) + introns(T2) + introns(NOVEL)),
              "chrB": rand_seq(8000, 2, introns(INTERGENIC))}
    with open(os.path.join(WORK, "genome.fa"), "w") as f:
        for k, v in genome.items():
            f.write(">%s\n%s\n" % (k, v))
    header = pysam.AlignmentHeader.from_dict({"HD": {"VN": "1.0", "SO": "coordinate"},
                                              "SQ": [{"SN": k, "LN": len(v)} for k, v in genome.items()]})
    gtf2 = os.path.join(WORK, "two_isoforms.gtf")
    gtf1 = os.path.join(WORK, "one_isoform.gtf")
    write_gtf(gtf2, {"T1": T1, "T2": T2})
    write_gtf(gtf1, {"T1": T1})

    violated = False
    for label, gtf in (("annotation T1+T2 (n-reads are inconsistent_ambiguous)", gtf2),
                       ("control, annotation T1 only (n-reads are inconsistent)", gtf1)):
        tag = "two" if gtf == gtf2 else "one"
        a = run(tag + "_A", gtf, False, genome, header)
        b = run(tag + "_B", gtf, True, genome, header)
        print(label)
        print("  type of n0:", sorted(set(r[5] for r in a[0] if r[0] == "n0")))
        print("  read_assignments.tsv identical in A and B: %s; corrected_reads.bed identical: %s"
              % (a[0] == b[0], a[1] == b[1]))
        print("  run A (no secondary alignments)        novel exons: %s" % (a[2],))
        print("      model counts:", a[3])
        print("  run B (+ one losing secondary per read) novel exons: %s" % (b[2],))
        print("      model counts:", b[3])
        if a[0] == b[0] and a[1] == b[1] and (a[2] != b[2] or a[3] != b[3]):
            print("  VIOLATION: the suppressed alignments change the constructed transcripts / their counts")
            violated = True
        else:
            print("  ok: suppressed alignments have no effect")
    shutil.rmtree(WORK, ignore_errors=True)
    return 1 if violated else 0


if __name__ == "__main__":
    sys.exit(main())
