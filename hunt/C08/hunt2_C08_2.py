#!/venv/bin/python
"""
C08 second pass, finding 2: which alignment of a read is retained depends on the order of RECORDS and of FILES.

MultimapResolver.find_duplicates() treats two alignments as duplicates when read id, chromosome, start, end and
isoform list coincide (BasicReadAssignment.__eq__) and keeps the one that comes FIRST in the input order.  The
"duplicates" need not be identical: they can differ in exon structure, polyA tail, strand, file (read group).

Part 1 (records): read r1 = primary alignment in an intergenic place (uninformative) + two secondary alignments X, Y
        inside gene G with the same start and end, both consistent with T1; Y has an acceptor shifted by 2 bp.
        The two BAM files contain the same three records, only X and Y (same coordinate, so any order is a valid
        coordinate-sorted BAM) are swapped.  The retained alignment (read_assignments.tsv exons) differs.
Part 2 (files): files A.bam and B.bam both contain a read called r1 with the same alignment.  `--bam A.bam B.bam`
        gives the count to column A, `--bam B.bam A.bam` gives it to column B.

Exit 1 when the property is violated, 0 otherwise.
"""
import os, sys, random, shutil, subprocess
import pysam

ROOT = os.path.dirname(os.path.abspath(__file__))
WD = "/tmp/hunt2scratch_C08/demo2"
CHROMS = [("chr1", 6000), ("chr2", 5000)]
ORDER = [c for c, _ in CHROMS]
T1 = [(1001, 1200), (1501, 1700), (2001, 2200), (2501, 2700)]
INTRONS = [("chr1", 1201, 1500), ("chr1", 1701, 2000), ("chr1", 2201, 2500), ("chr2", 1101, 1300), ("chr2", 1401, 1600)]


def make_genome(seed=1):
    rnd = random.Random(seed)
    seqs = {}
    for name, ln in CHROMS:
        s = [rnd.choice("ACGT") for _ in range(ln)]
        for i in range(3, ln):
            if s[i] == s[i - 1] == s[i - 2] == s[i - 3]:
                s[i] = {"A": "C", "C": "G", "G": "T", "T": "A"}[s[i]]
        seqs[name] = s
    for c, st, en in INTRONS:
        s = seqs[c]
        s[st - 1], s[st], s[en - 2], s[en - 1] = "G", "T", "A", "G"
    return {k: "".join(v) for k, v in seqs.items()}


def write_bam(path, seqs, reads):
    header = {"HD": {"VN": "1.0", "SO": "coordinate"}, "SQ": [{"SN": c, "LN": l} for c, l in CHROMS]}
    reads = sorted(reads, key=lambda r: (ORDER.index(r[1]), r[2][0][0]))  # stable: ties keep the given order
    with pysam.AlignmentFile(path, "wb", header=header) as out:
        for name, chr_id, exons, flag, mapq in reads:
            a = pysam.AlignedSegment()
            a.query_name = name
            seq = "".join(seqs[chr_id][s - 1:e] for s, e in exons)
            a.query_sequence = seq
            a.flag = flag
            a.reference_id = ORDER.index(chr_id)
            a.reference_start = exons[0][0] - 1
            a.mapping_quality = mapq
            ct = []
            for i, (s, e) in enumerate(exons):
                if i:
                    ct.append((3, s - exons[i - 1][1] - 1))
                ct.append((0, e - s + 1))
            a.cigartuples = ct
            a.query_qualities = pysam.qualitystring_to_array("I" * len(seq))
            out.write(a)
    pysam.index(path)


def run(bams, extra, tag):
    out = WD + "/out_" + tag
    shutil.rmtree(out, ignore_errors=True)
    env = dict(os.environ, HOME=WD + "/home")
    os.makedirs(env["HOME"], exist_ok=True)
    cmd = ["/venv/bin/python", ROOT + "/isoquant.py", "--reference", WD + "/genome.fa", "--genedb", WD + "/annot.gtf",
           "--complete_genedb", "--data_type", "nanopore", "-o", out, "--threads", "1", "--no_gzip",
           "--bam"] + bams + extra
    p = subprocess.run(cmd, env=env, stdout=subprocess.PIPE, stderr=subprocess.STDOUT, text=True)
    if p.returncode:
        print(p.stdout[-3000:])
        raise SystemExit("IsoQuant failed")
    return out + "/OUT/"


def main():
    shutil.rmtree(WD, ignore_errors=True)
    os.makedirs(WD)
    seqs = make_genome()
    with open(WD + "/genome.fa", "w") as f:
        for c in ORDER:
            f.write(">%s\n%s\n" % (c, seqs[c]))
    with open(WD + "/annot.gtf", "w") as f:
        f.write('chr1\tsrc\tgene\t1001\t2700\t.\t+\t.\tgene_id "G";\n')
        f.write('chr1\tsrc\ttranscript\t1001\t2700\t.\t+\t.\tgene_id "G"; transcript_id "T1";\n')
        for s, e in T1:
            f.write('chr1\tsrc\texon\t%d\t%d\t.\t+\t.\tgene_id "G"; transcript_id "T1";\n' % (s, e))
    bad = []

    # ---------- part 1: order of records with the same coordinate
    P = ("r1", "chr2", [(1001, 1100), (1301, 1400), (1601, 1700)], 0, 60)
    X = ("r1", "chr1", T1, 256, 0)
    Y = ("r1", "chr1", [(1001, 1200), (1503, 1700), (2001, 2200), (2501, 2700)], 256, 0)
    write_bam(WD + "/XY.bam", seqs, [P, X, Y])
    write_bam(WD + "/YX.bam", seqs, [P, Y, X])
    for extra in ([], ["--high_memory"]):
        res = {}
        for tag in ("XY", "YX"):
            out = run([WD + "/%s.bam" % tag], extra, tag)
            res[tag] = sorted(tuple(l.rstrip("\n").split("\t")[:8]) for l in open(out + "OUT.read_assignments.tsv") if l.startswith("r1\t"))
        mode = "--high_memory" if extra else "default"
        print("[records %s] X before Y: %s" % (mode, [r[7] for r in res["XY"]]))
        print("[records %s] Y before X: %s" % (mode, [r[7] for r in res["YX"]]))
        if res["XY"] != res["YX"]:
            bad.append("[records %s] retained alignment of r1 depends on the record order: %s vs %s" %
                       (mode, [r[7] for r in res["XY"]], [r[7] for r in res["YX"]]))

    # ---------- part 2: order of files
    A = [("r1", "chr1", T1, 0, 60), ("a2", "chr1", T1, 0, 60)]
    B = [("r1", "chr1", T1, 0, 60), ("b2", "chr1", T1, 0, 60)]
    write_bam(WD + "/A.bam", seqs, A)
    write_bam(WD + "/B.bam", seqs, B)
    for extra in ([], ["--high_memory"]):
        res = {}
        for tag, bams in (("AB", ["A.bam", "B.bam"]), ("BA", ["B.bam", "A.bam"])):
            out = run([WD + "/" + b for b in bams], extra, tag)
            lines = [l.rstrip("\n").split("\t") for l in open(out + "OUT.transcript_grouped_counts.tsv")]
            head = lines[0][1:]
            row = [l for l in lines[1:] if l[0] == "T1"][0][1:]
            res[tag] = dict(zip(head, map(float, row)))
        mode = "--high_memory" if extra else "default"
        print("[files %s] --bam A.bam B.bam: T1 %s ; --bam B.bam A.bam: T1 %s" % (mode, res["AB"], res["BA"]))
        if res["AB"] != res["BA"]:
            bad.append("[files %s] per-file counts of T1 depend on the order of the files: %s vs %s" % (mode, res["AB"], res["BA"]))

    shutil.rmtree(WD, ignore_errors=True)
    if bad:
        print("\nPROPERTY C08 VIOLATED:")
        for b in bad:
            print("  - " + b)
        sys.exit(1)
    print("OK")
    sys.exit(0)


if __name__ == "__main__":
    main()
