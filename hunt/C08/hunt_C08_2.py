#!/usr/bin/env python3
"""
C08 finding 2: ONE alignment that is processed in two coverage regions is retained twice.

AlignmentCollector.split_coverage_regions cuts a read cluster longer than 32768 bp (or with >= 1024 alignments) at
coverage valleys (coverage <= 1), and forward_alignments hands every alignment that overlaps a sub-region to that
sub-region - an alignment that spans the valley is therefore assigned twice, each time against the genes of one
sub-region only, and enters multimapper resolution as two "alignments" of the read.
MultimapResolver.find_duplicates recognises such copies only through BasicReadAssignment.__eq__, which also compares
the assigned isoforms: if the two sub-regions contain different genes the copies are not recognised as the same
alignment, both are retained (penalties cannot separate them either, see finding 1), the read is flagged
inconsistent_ambiguous and the very same BAM record is printed twice to the BED file and counted for two genes.

Input: genes GA (chr1:1000-2300) and GD on the same strand, a read-through alignment "rt" joining exons 1-2 of GA
with exons 2-3 of GD (no secondary alignments at all), 3 ordinary reads per gene.
  control: GD starts at 20000 -> the cluster is 20 kb long, is not split, "rt" gets a single assignment
  test:    GD starts at 40000 -> the cluster is 40 kb long, is split in the intron of "rt"
Exit 1 if "rt" is printed more than once to the BED file or adds more than 1 to the gene count table.
"""
import os, sys, random, shutil, subprocess
import pysam

REPO = os.path.dirname(os.path.abspath(__file__))
PY = "/venv/bin/python" if os.path.exists("/venv/bin/python") else sys.executable
SCRATCH = "/tmp/huntscratch_C08/%s" % os.path.splitext(os.path.basename(__file__))[0]


def make_genome(path, chroms, introns_plus=()):
    """random genome; GT..AG is written at the ends of every listed (chr, first, last) intron (1-based, closed)"""
    seqs = {}
    for c, l in chroms.items():
        rnd = random.Random("seed_%s" % c)
        seqs[c] = [rnd.choice("ACGT") for _ in range(l)]
    for c, s, e in introns_plus:
        seqs[c][s - 1:s + 1] = list("GT")
        seqs[c][e - 2:e] = list("AG")
    with open(path, "w") as f:
        for c in chroms:
            f.write(">%s\n" % c)
            s = "".join(seqs[c])
            for i in range(0, len(s), 60):
                f.write(s[i:i + 60] + "\n")
    return {c: "".join(v) for c, v in seqs.items()}


def write_gtf(path, genes):
    """genes: list of dict(chr, gene_id, strand, transcripts={tid: [(start, end), ...]}), 1-based closed"""
    with open(path, "w") as f:
        for g in genes:
            allex = [x for t in g["transcripts"].values() for x in t]
            gs, ge = min(x[0] for x in allex), max(x[1] for x in allex)
            attr = 'gene_id "%s"; gene_name "%s";' % (g["gene_id"], g["gene_id"])
            f.write("\t".join([g["chr"], "test", "gene", str(gs), str(ge), ".", g["strand"], ".", attr]) + "\n")
            for tid, exons in g["transcripts"].items():
                tattr = attr + ' transcript_id "%s";' % tid
                ts, te = min(x[0] for x in exons), max(x[1] for x in exons)
                f.write("\t".join([g["chr"], "test", "transcript", str(ts), str(te), ".", g["strand"], ".", tattr]) + "\n")
                for i, (s, e) in enumerate(sorted(exons)):
                    f.write("\t".join([g["chr"], "test", "exon", str(s), str(e), ".", g["strand"], ".",
                                       tattr + ' exon_number "%d";' % (i + 1)]) + "\n")


def write_bam(path, chroms, genome, reads):
    """reads: list of dict(name, chr, exons (1-based closed), flag=0, mapq=60); written sorted by (chr, start),
    records with the same start keep the order of the list"""
    header = {"HD": {"VN": "1.6", "SO": "coordinate"}, "SQ": [{"SN": c, "LN": l} for c, l in chroms.items()]}
    names = list(chroms.keys())
    recs = []
    for idx, r in enumerate(reads):
        a = pysam.AlignedSegment()
        a.query_name = r["name"]
        a.reference_id = names.index(r["chr"])
        exons = r["exons"]
        a.reference_start = exons[0][0] - 1
        a.query_sequence = "".join(genome[r["chr"]][s - 1:e] for s, e in exons)
        a.flag = r.get("flag", 0)
        a.mapping_quality = r.get("mapq", 60)
        cig = []
        for i, (s, e) in enumerate(exons):
            if i > 0:
                cig.append((3, s - exons[i - 1][1] - 1))
            cig.append((0, e - s + 1))
        a.cigartuples = cig
        a.query_qualities = pysam.qualitystring_to_array("I" * len(a.query_sequence))
        recs.append((a.reference_id, a.reference_start, idx, a))
    recs.sort(key=lambda x: (x[0], x[1], x[2]))
    with pysam.AlignmentFile(path, "wb", header=header) as out:
        for rec in recs:
            out.write(rec[3])
    pysam.index(path)


def run_isoquant(fasta, gtf, bam, outname, extra=()):
    out = os.path.join(SCRATCH, outname)
    if os.path.exists(out):
        shutil.rmtree(out)
    home = os.path.join(SCRATCH, "home")
    os.makedirs(home, exist_ok=True)
    cmd = [PY, os.path.join(REPO, "isoquant.py"), "--reference", fasta, "--genedb", gtf, "--complete_genedb",
           "--bam", bam, "--data_type", "nanopore", "-o", out, "--threads", "1", "--no_gzip"] + list(extra)
    p = subprocess.run(cmd, env=dict(os.environ, HOME=home), stdout=subprocess.PIPE, stderr=subprocess.STDOUT, text=True)
    if p.returncode != 0:
        print(p.stdout[-3000:])
        print("IsoQuant failed, cannot judge")
        sys.exit(2)
    return os.path.join(out, "OUT")


def read_tsv(path):
    with open(path) as f:
        return [l.rstrip("\n").split("\t") for l in f if not l.startswith("#")]


def assignments(outdir):
    return read_tsv(os.path.join(outdir, "OUT.read_assignments.tsv"))


def bed(outdir):
    return read_tsv(os.path.join(outdir, "OUT.corrected_reads.bed"))


def counts(outdir, kind):
    return {r[0]: float(r[1]) for r in read_tsv(os.path.join(outdir, "OUT.%s_counts.tsv" % kind))}


def cleanup():
    shutil.rmtree(SCRATCH, ignore_errors=True)
    try:
        os.rmdir(os.path.dirname(SCRATCH))
    except OSError:
        pass


def scenario(tag, off, mode):
    chroms = {"chr1": 60000}
    A1 = [(1000, 1200), (1500, 1700), (2000, 2300)]
    D1 = [(off, off + 200), (off + 500, off + 700), (off + 1000, off + 1300)]
    RT = [(1000, 1200), (1500, 1700), (off + 500, off + 700), (off + 1000, off + 1300)]
    introns = [("chr1", 1201, 1499), ("chr1", 1701, 1999), ("chr1", off + 201, off + 499),
               ("chr1", off + 701, off + 999), ("chr1", 1701, off + 499)]
    fa, gtf, bam = [os.path.join(SCRATCH, tag + x) for x in ("_genome.fa", "_annot.gtf", "_reads.bam")]
    genome = make_genome(fa, chroms, introns)
    write_gtf(gtf, [dict(chr="chr1", gene_id="GA", strand="+", transcripts={"A1": A1}),
                    dict(chr="chr1", gene_id="GD", strand="+", transcripts={"D1": D1})])
    reads = [dict(name="a%d" % i, chr="chr1", exons=A1) for i in range(3)] + \
            [dict(name="d%d" % i, chr="chr1", exons=D1) for i in range(3)] + \
            [dict(name="rt", chr="chr1", exons=RT, flag=0, mapq=60)]
    write_bam(bam, chroms, genome, reads)
    out = run_isoquant(fa, gtf, bam, "out_" + tag + ("_hm" if mode else ""),
                       mode + ["--gene_quantification", "all", "--transcript_quantification", "all"])
    rows = sorted((r[3], r[4], r[5]) for r in assignments(out) if r[0] == "rt")
    bed_rows = [b for b in bed(out) if b[3] == "rt"]
    gene_counts = counts(out, "gene")
    contribution = gene_counts["GA"] - 3 + gene_counts["GD"] - 3
    return rows, bed_rows, contribution


def main():
    os.makedirs(SCRATCH, exist_ok=True)
    bad = []
    for mode in ([], ["--high_memory"]):
        label = "mode %s" % (" ".join(mode) or "default")
        for tag, off in (("control", 20000), ("test", 40000)):
            rows, bed_rows, contribution = scenario(tag, off, mode)
            print("%s, %s (GD at %d): read rt (a single BAM record): assignments %s, BED records %d, "
                  "added to the gene count table %.1f" % (label, tag, off, rows, len(bed_rows), contribution))
            if len(bed_rows) > 1 or contribution > 1.0:
                bad.append("%s, %s: the single alignment of read rt is printed %d times to the BED file%s and adds "
                           "%.1f to the gene counts (assignments: %s)"
                           % (label, tag, len(bed_rows),
                              " (identical records)" if len(set(map(tuple, bed_rows))) == 1 else "",
                              contribution, rows))
    cleanup()
    if bad:
        print("PROPERTY C08 VIOLATED:")
        for b in bad:
            print("  -", b)
        sys.exit(1)
    print("OK: the alignment is retained once")
    sys.exit(0)


if __name__ == "__main__":
    main()
