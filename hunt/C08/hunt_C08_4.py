#!/usr/bin/env python3
"""
C08 finding 4: two retained alignments of one read that hit the SAME isoform are neither reduced to one nor flagged,
the read is counted twice for one feature as a "unique" read.

MultimapResolver.filter_assignments flags the retained alignments as ambiguous only if they name more than one
isoform / gene (len(all_isoforms) > 1, len(all_genes) > 1), and find_duplicates only merges alignments with identical
first and last position. Two tied alignments with (slightly) different spans to the same isoform are both kept with
assignment type "unique": both lines go to read_assignments.tsv and the BED file, and the read adds 2.0 to the count
of ONE transcript and ONE gene even with the default unique_only strategy.
(The known issue "a read kept at two tied loci is counted with weight 1 at each locus" concerns two different loci /
features, where the read is at least flagged ambiguous; here there is one locus and no flag.)

Input: read "mm": primary alignment on chr2 contradicts the annotation and has MAPQ 1 (dropped by the default
--inconsistent_mapq_cutoff 5, as for a typical multi-mapper), two secondary alignments (MAPQ 0) on chr1 match
isoform T1chr1, one of them 10 bp shorter at both ends. One more read confirms T1chr1.
Exit 1 if read mm adds more than 1 to the count of T1chr1 / Gchr1.
"""
import os, sys, random, shutil, subprocess
import pysam

REPO = os.path.dirname(os.path.abspath(__file__))
PY = "/venv/bin/python" if os.path.exists("/venv/bin/python") else sys.executable
SCRATCH = "/tmp/huntscratch_C08/%s" % os.path.splitext(os.path.basename(__file__))[0]


def make_genome(path, chroms, introns_plus=()):
    """random genome; GT..AG is written at the ends of every listed (chr, first, last) intron (1-based, closed)"""
    seqs = {}
    for c, l in chroms.items():
        rnd = random.Random("seed_%s" % c)
        seqs[c] = [rnd.choice("ACGT") for _ in range(l)]
    for c, s, e in introns_plus:
        seqs[c][s - 1:s + 1] = list("GT")
        seqs[c][e - 2:e] = list("AG")
    with open(path, "w") as f:
        for c in chroms:
            f.write(">%s\n" % c)
            s = "".join(seqs[c])
            for i in range(0, len(s), 60):
                f.write(s[i:i + 60] + "\n")
    return {c: "".join(v) for c, v in seqs.items()}


def write_gtf(path, genes):
    """genes: list of dict(chr, gene_id, strand, transcripts={tid: [(start, end), ...]}), 1-based closed"""
    with open(path, "w") as f:
        for g in genes:
            allex = [x for t in g["transcripts"].values() for x in t]
            gs, ge = min(x[0] for x in allex), max(x[1] for x in allex)
            attr = 'gene_id "%s"; gene_name "%s";' % (g["gene_id"], g["gene_id"])
            f.write("\t".join([g["chr"], "test", "gene", str(gs), str(ge), ".", g["strand"], ".", attr]) + "\n")
            for tid, exons in g["transcripts"].items():
                tattr = attr + ' transcript_id "%s";' % tid
                ts, te = min(x[0] for x in exons), max(x[1] for x in exons)
                f.write("\t".join([g["chr"], "test", "transcript", str(ts), str(te), ".", g["strand"], ".", tattr]) + "\n")
                for i, (s, e) in enumerate(sorted(exons)):
                    f.write("\t".join([g["chr"], "test", "exon", str(s), str(e), ".", g["strand"], ".",
                                       tattr + ' exon_number "%d";' % (i + 1)]) + "\n")


def write_bam(path, chroms, genome, reads):
    """reads: list of dict(name, chr, exons (1-based closed), flag=0, mapq=60); written sorted by (chr, start),
    records with the same start keep the order of the list"""
    header = {"HD": {"VN": "1.6", "SO": "coordinate"}, "SQ": [{"SN": c, "LN": l} for c, l in chroms.items()]}
    names = list(chroms.keys())
    recs = []
    for idx, r in enumerate(reads):
        a = pysam.AlignedSegment()
        a.query_name = r["name"]
        a.reference_id = names.index(r["chr"])
        exons = r["exons"]
        a.reference_start = exons[0][0] - 1
        a.query_sequence = "".join(genome[r["chr"]][s - 1:e] for s, e in exons)
        a.flag = r.get("flag", 0)
        a.mapping_quality = r.get("mapq", 60)
        cig = []
        for i, (s, e) in enumerate(exons):
            if i > 0:
                cig.append((3, s - exons[i - 1][1] - 1))
            cig.append((0, e - s + 1))
        a.cigartuples = cig
        a.query_qualities = pysam.qualitystring_to_array("I" * len(a.query_sequence))
        recs.append((a.reference_id, a.reference_start, idx, a))
    recs.sort(key=lambda x: (x[0], x[1], x[2]))
    with pysam.AlignmentFile(path, "wb", header=header) as out:
        for rec in recs:
            out.write(rec[3])
    pysam.index(path)


def run_isoquant(fasta, gtf, bam, outname, extra=()):
    out = os.path.join(SCRATCH, outname)
    if os.path.exists(out):
        shutil.rmtree(out)
    home = os.path.join(SCRATCH, "home")
    os.makedirs(home, exist_ok=True)
    cmd = [PY, os.path.join(REPO, "isoquant.py"), "--reference", fasta, "--genedb", gtf, "--complete_genedb",
           "--bam", bam, "--data_type", "nanopore", "-o", out, "--threads", "1", "--no_gzip"] + list(extra)
    p = subprocess.run(cmd, env=dict(os.environ, HOME=home), stdout=subprocess.PIPE, stderr=subprocess.STDOUT, text=True)
    if p.returncode != 0:
        print(p.stdout[-3000:])
        print("IsoQuant failed, cannot judge")
        sys.exit(2)
    return os.path.join(out, "OUT")


def read_tsv(path):
    with open(path) as f:
        return [l.rstrip("\n").split("\t") for l in f if not l.startswith("#")]


def assignments(outdir):
    return read_tsv(os.path.join(outdir, "OUT.read_assignments.tsv"))


def bed(outdir):
    return read_tsv(os.path.join(outdir, "OUT.corrected_reads.bed"))


def counts(outdir, kind):
    return {r[0]: float(r[1]) for r in read_tsv(os.path.join(outdir, "OUT.%s_counts.tsv" % kind))}


def cleanup():
    shutil.rmtree(SCRATCH, ignore_errors=True)
    try:
        os.rmdir(os.path.dirname(SCRATCH))
    except OSError:
        pass


def main():
    os.makedirs(SCRATCH, exist_ok=True)
    chroms = {"chr1": 12000, "chr2": 11000}
    T1 = [(1000, 1200), (1500, 1700), (2000, 2300), (2600, 2800)]
    T2 = [(1000, 1200), (2000, 2300), (2600, 2800)]
    introns = []
    for c in chroms:
        introns += [(c, 1201, 1499), (c, 1701, 1999), (c, 2301, 2599), (c, 1201, 1999)]
    fa, gtf, bam = [os.path.join(SCRATCH, x) for x in ("genome.fa", "annot.gtf", "reads.bam")]
    genome = make_genome(fa, chroms, introns)
    write_gtf(gtf, [dict(chr=c, gene_id="G" + c, strand="+", transcripts={"T1" + c: T1, "T2" + c: T2})
                    for c in chroms])
    reads = [dict(name="mm", chr="chr2", exons=[(1000, 1200), (1500, 1650), (2000, 2300), (2600, 2800)], flag=0, mapq=1),
             dict(name="mm", chr="chr1", exons=T1, flag=256, mapq=0),
             dict(name="mm", chr="chr1", exons=[(1010, 1200), (1500, 1700), (2000, 2300), (2600, 2790)], flag=256, mapq=0),
             dict(name="conf1", chr="chr1", exons=T1)]
    write_bam(bam, chroms, genome, reads)
    bad = []
    for mode in ([], ["--high_memory"]):
        label = "mode %s" % (" ".join(mode) or "default")
        out = run_isoquant(fa, gtf, bam, "out" + ("_hm" if mode else ""), mode)
        rows = sorted((r[1], r[3], r[5], r[7]) for r in assignments(out) if r[0] == "mm")
        t, g = counts(out, "transcript"), counts(out, "gene")
        print("%s: assignments of read mm:" % label)
        for r in rows:
            print("    ", r)
        print("    T1chr1 = %.1f, Gchr1 = %.1f (reads in the BAM file: mm and conf1)" % (t["T1chr1"], g["Gchr1"]))
        if t["T1chr1"] - 1 > 1.0 or g["Gchr1"] - 1 > 1.0:
            bad.append("%s: read mm adds %.1f to the transcript count of T1chr1 and %.1f to the gene count of Gchr1; "
                       "it is retained on %d alignments of type %s"
                       % (label, t["T1chr1"] - 1, g["Gchr1"] - 1, len(rows), sorted(set(r[2] for r in rows))))
    cleanup()
    if bad:
        print("PROPERTY C08 VIOLATED:")
        for b in bad:
            print("  -", b)
        sys.exit(1)
    print("OK: the read is counted once")
    sys.exit(0)


if __name__ == "__main__":
    main()
