#!/usr/bin/env python3
"""
C08 finding 1: the penalty score never takes part in multimapper resolution.

BasicReadAssignment.penalty_score is initialised with 0.0 and then updated with min(0.0, penalty): penalties are
non-negative, so it is 0.0 for every alignment (both in the default path, deserialize_from_read_assignment, and in the
--high_memory path, __init__). MultimapResolver.select_best_inconsistent therefore sees a tie between ALL inconsistent
alignments of a read, keeps every one of them and flags the read inconsistent_ambiguous, although one locus is
clearly better.

Input: read "mm" has a primary alignment in an unannotated region of chr3 (intergenic, loses by the rules) and two
secondary alignments (MAPQ 20, above --inconsistent_mapq_cutoff): chr1 differs from isoform T1chr1 by ONE alternative
donor site (penalty 1), chr2 differs from T1chr2 by THREE alternative splice sites (penalty 3).
Expected: only the chr1 alignment is retained. Exit 1 if the chr2 alignment survives.
"""
import os, sys, random, shutil, subprocess
import pysam

REPO = os.path.dirname(os.path.abspath(__file__))
PY = "/venv/bin/python" if os.path.exists("/venv/bin/python") else sys.executable
SCRATCH = "/tmp/huntscratch_C08/%s" % os.path.splitext(os.path.basename(__file__))[0]


def make_genome(path, chroms, introns_plus=()):
    """random genome; GT..AG is written at the ends of every listed (chr, first, last) intron (1-based, closed)"""
    seqs = {}
    for c, l in chroms.items():
        rnd = random.Random("seed_%s" % c)
        seqs[c] = [rnd.choice("ACGT") for _ in range(l)]
    for c, s, e in introns_plus:
        seqs[c][s - 1:s + 1] = list("GT")
        seqs[c][e - 2:e] = list("AG")
    with open(path, "w") as f:
        for c in chroms:
            f.write(">%s\n" % c)
            s = "".join(seqs[c])
            for i in range(0, len(s), 60):
                f.write(s[i:i + 60] + "\n")
    return {c: "".join(v) for c, v in seqs.items()}


def write_gtf(path, genes):
    """genes: list of dict(chr, gene_id, strand, transcripts={tid: [(start, end), ...]}), 1-based closed"""
    with open(path, "w") as f:
        for g in genes:
            allex = [x for t in g["transcripts"].values() for x in t]
            gs, ge = min(x[0] for x in allex), max(x[1] for x in allex)
            attr = 'gene_id "%s"; gene_name "%s";' % (g["gene_id"], g["gene_id"])
            f.write("\t".join([g["chr"], "test", "gene", str(gs), str(ge), ".", g["strand"], ".", attr]) + "\n")
            for tid, exons in g["transcripts"].items():
                tattr = attr + ' transcript_id "%s";' % tid
                ts, te = min(x[0] for x in exons), max(x[1] for x in exons)
                f.write("\t".join([g["chr"], "test", "transcript", str(ts), str(te), ".", g["strand"], ".", tattr]) + "\n")
                for i, (s, e) in enumerate(sorted(exons)):
                    f.write("\t".join([g["chr"], "test", "exon", str(s), str(e), ".", g["strand"], ".",
                                       tattr + ' exon_number "%d";' % (i + 1)]) + "\n")


def write_bam(path, chroms, genome, reads):
    """reads: list of dict(name, chr, exons (1-based closed), flag=0, mapq=60); written sorted by (chr, start),
    records with the same start keep the order of the list"""
    header = {"HD": {"VN": "1.6", "SO": "coordinate"}, "SQ": [{"SN": c, "LN": l} for c, l in chroms.items()]}
    names = list(chroms.keys())
    recs = []
    for idx, r in enumerate(reads):
        a = pysam.AlignedSegment()
        a.query_name = r["name"]
        a.reference_id = names.index(r["chr"])
        exons = r["exons"]
        a.reference_start = exons[0][0] - 1
        a.query_sequence = "".join(genome[r["chr"]][s - 1:e] for s, e in exons)
        a.flag = r.get("flag", 0)
        a.mapping_quality = r.get("mapq", 60)
        cig = []
        for i, (s, e) in enumerate(exons):
            if i > 0:
                cig.append((3, s - exons[i - 1][1] - 1))
            cig.append((0, e - s + 1))
        a.cigartuples = cig
        a.query_qualities = pysam.qualitystring_to_array("I" * len(a.query_sequence))
        recs.append((a.reference_id, a.reference_start, idx, a))
    recs.sort(key=lambda x: (x[0], x[1], x[2]))
    with pysam.AlignmentFile(path, "wb", header=header) as out:
        for rec in recs:
            out.write(rec[3])
    pysam.index(path)


def run_isoquant(fasta, gtf, bam, outname, extra=()):
    out = os.path.join(SCRATCH, outname)
    if os.path.exists(out):
        shutil.rmtree(out)
    home = os.path.join(SCRATCH, "home")
    os.makedirs(home, exist_ok=True)
    cmd = [PY, os.path.join(REPO, "isoquant.py"), "--reference", fasta, "--genedb", gtf, "--complete_genedb",
           "--bam", bam, "--data_type", "nanopore", "-o", out, "--threads", "1", "--no_gzip"] + list(extra)
    p = subprocess.run(cmd, env=dict(os.environ, HOME=home), stdout=subprocess.PIPE, stderr=subprocess.STDOUT, text=True)
    if p.returncode != 0:
        print(p.stdout[-3000:])
        print("IsoQuant failed, cannot judge")
        sys.exit(2)
    return os.path.join(out, "OUT")


def read_tsv(path):
    with open(path) as f:
        return [l.rstrip("\n").split("\t") for l in f if not l.startswith("#")]


def assignments(outdir):
    return read_tsv(os.path.join(outdir, "OUT.read_assignments.tsv"))


def bed(outdir):
    return read_tsv(os.path.join(outdir, "OUT.corrected_reads.bed"))


def counts(outdir, kind):
    return {r[0]: float(r[1]) for r in read_tsv(os.path.join(outdir, "OUT.%s_counts.tsv" % kind))}


def cleanup():
    shutil.rmtree(SCRATCH, ignore_errors=True)
    try:
        os.rmdir(os.path.dirname(SCRATCH))
    except OSError:
        pass


def main():
    os.makedirs(SCRATCH, exist_ok=True)
    bad = []

    # --- direct check of the object the resolver works with
    sys.path.insert(0, REPO)
    from src.isoform_assignment import (BasicReadAssignment, ReadAssignment, ReadAssignmentType, IsoformMatch,
                                        MatchClassification)
    ra = ReadAssignment("x", ReadAssignmentType.inconsistent,
                        IsoformMatch(MatchClassification.novel_not_in_catalog, "G", "T", penalty_score=3.0))
    ra.exons = [(1, 10)]
    ra.chr_id = "chr1"
    if BasicReadAssignment(ra).penalty_score != 3.0:
        bad.append("BasicReadAssignment of an alignment with penalty 3.0 has penalty_score %s"
                   % BasicReadAssignment(ra).penalty_score)

    # --- end to end
    chroms = {"chr1": 12000, "chr2": 11000, "chr3": 10000}
    T1 = [(1000, 1200), (1500, 1700), (2000, 2300), (2600, 2800)]
    introns = []
    for c in chroms:
        introns += [(c, 1201, 1499), (c, 1701, 1999), (c, 2301, 2599)]
    fa, gtf, bam = [os.path.join(SCRATCH, x) for x in ("genome.fa", "annot.gtf", "reads.bam")]
    genome = make_genome(fa, chroms, introns)
    write_gtf(gtf, [dict(chr=c, gene_id="G" + c, strand="+", transcripts={"T1" + c: T1}) for c in chroms])
    one_alt_site = [(1000, 1200), (1500, 1650), (2000, 2300), (2600, 2800)]
    three_alt_sites = [(1000, 1150), (1500, 1650), (2000, 2250), (2600, 2800)]
    reads = [dict(name="mm", chr="chr3", exons=[(5000, 5300), (5600, 5900), (6200, 6500)], flag=0, mapq=20),
             dict(name="mm", chr="chr1", exons=one_alt_site, flag=256, mapq=20),
             dict(name="mm", chr="chr2", exons=three_alt_sites, flag=256, mapq=20),
             # reads that confirm the isoforms, so that counts are not zeroed
             dict(name="conf1", chr="chr1", exons=T1), dict(name="conf2", chr="chr2", exons=T1)]
    write_bam(bam, chroms, genome, reads)

    for mode in ([], ["--high_memory"]):
        out = run_isoquant(fa, gtf, bam, "out" + ("_hm" if mode else ""),
                           mode + ["--gene_quantification", "all", "--transcript_quantification", "all"])
        rows = [r for r in assignments(out) if r[0] == "mm"]
        kept = sorted((r[1], r[3], r[5], r[6]) for r in rows)
        gene_counts = counts(out, "gene")
        contribution = gene_counts["Gchr1"] - 1 + gene_counts["Gchr2"] - 1
        label = "mode %s" % (" ".join(mode) or "default")
        print("%s: retained alignments of read mm:" % label)
        for k in kept:
            print("    ", k)
        print("    gene counts", {k: v for k, v in gene_counts.items() if not k.startswith("__")})
        if any(k[0] == "chr2" for k in kept):
            bad.append("%s: the chr2 alignment (3 alternative splice sites, penalty 3) is retained next to the chr1 "
                       "alignment (1 alternative site, penalty 1); the read is flagged %s and adds %.1f to the gene "
                       "count table" % (label, kept[0][2], contribution))

    cleanup()
    if bad:
        print("PROPERTY C08 VIOLATED:")
        for b in bad:
            print("  -", b)
        sys.exit(1)
    print("OK: the best inconsistent locus wins")
    sys.exit(0)


if __name__ == "__main__":
    main()
