#!/usr/bin/env python3
"""
C08 finding 3: the retained alignment depends on the order of BAM records that start at the same position.

MultimapResolver.find_duplicates keeps the FIRST of the alignments that BasicReadAssignment.__eq__ calls equal
(same read, chromosome, first and last aligned position, assigned isoforms) and suspends the rest. The comparison does
not look at the alignment itself (CIGAR/introns, primary/secondary flag, assignment type), so two DIFFERENT alignments
of a read with the same span are "duplicates", and which of them survives is decided by their order in the list, i.e.
by the order of the records in the coordinate-sorted BAM (records with the same start may come in any order).

Input: read "mm" has a primary alignment on chr2 that contradicts the annotation and two secondary alignments on chr1
with the same span that both match isoform T1chr1 - one exactly, one with a splice site shifted by 2 bp.
The same records are written to two valid coordinate-sorted BAM files that differ only in the order of these two
records. Exit 1 if the outputs for read mm differ.
"""
import os, sys, random, shutil, subprocess
import pysam

REPO = os.path.dirname(os.path.abspath(__file__))
PY = "/venv/bin/python" if os.path.exists("/venv/bin/python") else sys.executable
SCRATCH = "/tmp/huntscratch_C08/%s" % os.path.splitext(os.path.basename(__file__))[0]


def make_genome(path, chroms, introns_plus=()):
    """random genome; GT..AG is written at the ends of every listed (chr, first, last) intron (1-based, closed)"""
    seqs = {}
    for c, l in chroms.items():
        rnd = random.Random("seed_%s" % c)
        seqs[c] = [rnd.choice("ACGT") for _ in range(l)]
    for c, s, e in introns_plus:
        seqs[c][s - 1:s + 1] = list("GT")
        seqs[c][e - 2:e] = list("AG")
    with open(path, "w") as f:
        for c in chroms:
            f.write(">%s\n" % c)
            s = "".join(seqs[c])
            for i in range(0, len(s), 60):
                f.write(s[i:i + 60] + "\n")
    return {c: "".join(v) for c, v in seqs.items()}


def write_gtf(path, genes):
    """genes: list of dict(chr, gene_id, strand, transcripts={tid: [(start, end), ...]}), 1-based closed"""
    with open(path, "w") as f:
        for g in genes:
            allex = [x for t in g["transcripts"].values() for x in t]
            gs, ge = min(x[0] for x in allex), max(x[1] for x in allex)
            attr = 'gene_id "%s"; gene_name "%s";' % (g["gene_id"], g["gene_id"])
            f.write("\t".join([g["chr"], "test", "gene", str(gs), str(ge), ".", g["strand"], ".", attr]) + "\n")
            for tid, exons in g["transcripts"].items():
                tattr = attr + ' transcript_id "%s";' % tid
                ts, te = min(x[0] for x in exons), max(x[1] for x in exons)
                f.write("\t".join([g["chr"], "test", "transcript", str(ts), str(te), ".", g["strand"], ".", tattr]) + "\n")
                for i, (s, e) in enumerate(sorted(exons)):
                    f.write("\t".join([g["chr"], "test", "exon", str(s), str(e), ".", g["strand"], ".",
                                       tattr + ' exon_number "%d";' % (i + 1)]) + "\n")


def write_bam(path, chroms, genome, reads):
    """reads: list of dict(name, chr, exons (1-based closed), flag=0, mapq=60); written sorted by (chr, start),
    records with the same start keep the order of the list"""
    header = {"HD": {"VN": "1.6", "SO": "coordinate"}, "SQ": [{"SN": c, "LN": l} for c, l in chroms.items()]}
    names = list(chroms.keys())
    recs = []
    for idx, r in enumerate(reads):
        a = pysam.AlignedSegment()
        a.query_name = r["name"]
        a.reference_id = names.index(r["chr"])
        exons = r["exons"]
        a.reference_start = exons[0][0] - 1
        a.query_sequence = "".join(genome[r["chr"]][s - 1:e] for s, e in exons)
        a.flag = r.get("flag", 0)
        a.mapping_quality = r.get("mapq", 60)
        cig = []
        for i, (s, e) in enumerate(exons):
            if i > 0:
                cig.append((3, s - exons[i - 1][1] - 1))
            cig.append((0, e - s + 1))
        a.cigartuples = cig
        a.query_qualities = pysam.qualitystring_to_array("I" * len(a.query_sequence))
        recs.append((a.reference_id, a.reference_start, idx, a))
    recs.sort(key=lambda x: (x[0], x[1], x[2]))
    with pysam.AlignmentFile(path, "wb", header=header) as out:
        for rec in recs:
            out.write(rec[3])
    pysam.index(path)


def run_isoquant(fasta, gtf, bam, outname, extra=()):
    out = os.path.join(SCRATCH, outname)
    if os.path.exists(out):
        shutil.rmtree(out)
    home = os.path.join(SCRATCH, "home")
    os.makedirs(home, exist_ok=True)
    cmd = [PY, os.path.join(REPO, "isoquant.py"), "--reference", fasta, "--genedb", gtf, "--complete_genedb",
           "--bam", bam, "--data_type", "nanopore", "-o", out, "--threads", "1", "--no_gzip"] + list(extra)
    p = subprocess.run(cmd, env=dict(os.environ, HOME=home), stdout=subprocess.PIPE, stderr=subprocess.STDOUT, text=True)
    if p.returncode != 0:
        print(p.stdout[-3000:])
        print("IsoQuant failed, cannot judge")
        sys.exit(2)
    return os.path.join(out, "OUT")


def read_tsv(path):
    with open(path) as f:
        return [l.rstrip("\n").split("\t") for l in f if not l.startswith("#")]


def assignments(outdir):
    return read_tsv(os.path.join(outdir, "OUT.read_assignments.tsv"))


def bed(outdir):
    return read_tsv(os.path.join(outdir, "OUT.corrected_reads.bed"))


def counts(outdir, kind):
    return {r[0]: float(r[1]) for r in read_tsv(os.path.join(outdir, "OUT.%s_counts.tsv" % kind))}


def cleanup():
    shutil.rmtree(SCRATCH, ignore_errors=True)
    try:
        os.rmdir(os.path.dirname(SCRATCH))
    except OSError:
        pass


def main():
    os.makedirs(SCRATCH, exist_ok=True)
    chroms = {"chr1": 12000, "chr2": 11000}
    T1 = [(1000, 1200), (1500, 1700), (2000, 2300), (2600, 2800)]
    T2 = [(1000, 1200), (2000, 2300), (2600, 2800)]
    introns = []
    for c in chroms:
        introns += [(c, 1201, 1499), (c, 1701, 1999), (c, 2301, 2599), (c, 1201, 1999)]
    fa, gtf = [os.path.join(SCRATCH, x) for x in ("genome.fa", "annot.gtf")]
    genome = make_genome(fa, chroms, introns)
    write_gtf(gtf, [dict(chr=c, gene_id="G" + c, strand="+", transcripts={"T1" + c: T1, "T2" + c: T2})
                    for c in chroms])
    exact = dict(name="mm", chr="chr1", exons=T1, flag=256, mapq=0)
    shifted = dict(name="mm", chr="chr1", exons=[(1000, 1200), (1500, 1702), (2000, 2300), (2600, 2800)],
                   flag=256, mapq=0)
    primary = dict(name="mm", chr="chr2", exons=[(1000, 1200), (1500, 1650), (2000, 2300), (2600, 2800)],
                   flag=0, mapq=60)
    other = [dict(name="conf1", chr="chr1", exons=T1)]
    bad = []
    for mode in ([], ["--high_memory"]):
        label = "mode %s" % (" ".join(mode) or "default")
        res = {}
        for tag, pair in (("exact_first", [exact, shifted]), ("shifted_first", [shifted, exact])):
            bam = os.path.join(SCRATCH, tag + ".bam")
            write_bam(bam, chroms, genome, [primary] + pair + other)
            out = run_isoquant(fa, gtf, bam, "out_" + tag + ("_hm" if mode else ""), mode)
            res[tag] = (sorted((r[1], r[3], r[5], r[6], r[7]) for r in assignments(out) if r[0] == "mm"),
                        sorted((b[0], b[1], b[2], b[10], b[11]) for b in bed(out) if b[3] == "mm"))
            print("%s, %s:" % (label, tag))
            print("    assignments of mm:", res[tag][0])
            print("    BED records of mm:", res[tag][1])
        if res["exact_first"] != res["shifted_first"]:
            bad.append("%s: the same set of BAM records gives different retained alignments for read mm depending on "
                       "the order of two records with the same start: exons %s vs %s"
                       % (label, res["exact_first"][0][0][4], res["shifted_first"][0][0][4]))
    cleanup()
    if bad:
        print("PROPERTY C08 VIOLATED:")
        for b in bad:
            print("  -", b)
        sys.exit(1)
    print("OK: record order does not matter")
    sys.exit(0)


if __name__ == "__main__":
    main()
