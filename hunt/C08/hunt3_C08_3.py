#!/usr/bin/env python3
"""
C08 / finding 3: a read that is kept on two tied alignments inside ONE processed region is attached to the transcript
model of only ONE of them in transcript_model_counts.tsv / transcript_model_reads.tsv, and which one depends on the
order of BAM records that have the same start position (both orders are valid coordinate-sorted BAM files).

Input: gene G on chrA with isoforms T1 (e1,e2,e3) and T2 (e1,e3); three unique reads for each isoform (both isoforms
are reported as known models).  Read r1: primary alignment on chrB (unspliced, intergenic) and two secondary alignments
in G that start at the same base: one is a full splice match of T1, the other one of T2.  Both secondaries are
consistent, the primary is uninformative -> both secondaries tie, are kept and flagged `ambiguous` (as the statement
requires).  The two BAM files differ only in the order of the two secondary records.

GraphBasedModelConstructor.assign_reads_to_models keeps its book by read id
(`if self.read_assignment_counts[read_id] > 0: continue`), so the second retained alignment of the read is never
looked at.

Exit code 1 when the property is violated, 0 otherwise.
"""
import os
import random
import shutil
import subprocess
import sys

import pysam

HERE = os.path.dirname(os.path.abspath(__file__))
ISOQUANT = os.path.join(HERE, "isoquant.py")
PY = "/venv/bin/python" if os.path.exists("/venv/bin/python") else sys.executable
WORK = "/tmp/hunt3scratch_C08/demo3"

T1 = [(1001, 1200), (1501, 1700), (2001, 2300)]
T2 = [(1001, 1200), (2001, 2300)]


def rand_seq(n, seed):
    r = random.Random(seed)
    return "".join(r.choice("ACGT") for _ in range(n))


def read(header, genome, name, chrom, blocks, flag, mapq):
    a = pysam.AlignedSegment(header)
    a.query_name = name
    a.reference_id = header.get_tid(chrom)
    a.reference_start = blocks[0][0] - 1
    a.flag = flag
    a.mapping_quality = mapq
    c = []
    for i, (s, e) in enumerate(blocks):
        if i:
            c.append((3, s - blocks[i - 1][1] - 1))
        c.append((0, e - s + 1))
    a.cigartuples = c
    seq = "".join(genome[chrom][s - 1:e] for s, e in blocks)
    a.query_sequence = seq
    a.query_qualities = pysam.qualitystring_to_array("I" * len(seq))
    return a


def table(path):
    return [l.rstrip("\n").split("\t") for l in open(path) if not l.startswith("#") and not l.startswith("__")]


def run(first, extra, genome, header):
    d = os.path.join(WORK, "first_%s%s" % (first, "_hm" if extra else ""))
    os.makedirs(d)
    two = [read(header, genome, "r1", "chrA", T1, 256, 0), read(header, genome, "r1", "chrA", T2, 256, 0)]
    if first == "T2":
        two.reverse()
    recs = list(two)
    for i in range(3):
        recs.append(read(header, genome, "c%d" % i, "chrA", T1, 0, 60))
        recs.append(read(header, genome, "d%d" % i, "chrA", T2, 0, 60))
    recs.append(read(header, genome, "r1", "chrB", [(501, 1100)], 0, 60))
    # stable sort by position only: the two secondary records of r1 stay in the chosen order
    recs.sort(key=lambda a: (a.reference_id, a.reference_start))
    bam = os.path.join(d, "reads.bam")
    with pysam.AlignmentFile(bam, "wb", header=header) as f:
        for a in recs:
            f.write(a)
    pysam.index(bam)
    cmd = [PY, ISOQUANT, "--reference", os.path.join(WORK, "genome.fa"), "--genedb", os.path.join(WORK, "annot.gtf"),
           "--complete_genedb", "--bam", bam, "--data_type", "nanopore", "-o", os.path.join(d, "out"),
           "--threads", "1", "--no_gzip"] + extra
    p = subprocess.run(cmd, env=dict(os.environ, HOME=os.path.join(WORK, "home")), stdout=subprocess.PIPE,
                       stderr=subprocess.STDOUT, text=True)
    if p.returncode != 0:
        print(p.stdout[-3000:])
        raise SystemExit(2)
    o = os.path.join(d, "out", "OUT")
    kept = sorted((r[3], r[5], r[7]) for r in table(os.path.join(o, "OUT.read_assignments.tsv")) if r[0] == "r1")
    counts = {r[0]: r[1] for r in table(os.path.join(o, "OUT.transcript_model_counts.tsv"))}
    r2t = sorted(r[1] for r in table(os.path.join(o, "OUT.transcript_model_reads.tsv")) if r[0] == "r1")
    return kept, counts, r2t


def main():
    shutil.rmtree(WORK, ignore_errors=True)
    os.makedirs(os.path.join(WORK, "home"))
    genome = {"chrA": rand_seq(6000, 1), "chrB": rand_seq(5000, 2)}
    with open(os.path.join(WORK, "genome.fa"), "w") as f:
        for k, v in genome.items():
            f.write(">%s\n%s\n" % (k, v))
    with open(os.path.join(WORK, "annot.gtf"), "w") as f:
        f.write('chrA\tsrc\tgene\t1001\t2300\t.\t+\t.\tgene_id "G";\n')
        for tid, exons in (("T1", T1), ("T2", T2)):
            f.write('chrA\tsrc\ttranscript\t1001\t2300\t.\t+\t.\tgene_id "G"; transcript_id "%s";\n' % tid)
            for s, e in exons:
                f.write('chrA\tsrc\texon\t%d\t%d\t.\t+\t.\tgene_id "G"; transcript_id "%s";\n' % (s, e, tid))
    header = pysam.AlignmentHeader.from_dict({"HD": {"VN": "1.0", "SO": "coordinate"},
                                              "SQ": [{"SN": k, "LN": len(v)} for k, v in genome.items()]})
    violated = False
    for extra in ([], ["--high_memory"]):
        a = run("T1", extra, genome, header)
        b = run("T2", extra, genome, header)
        print("mode:", "--high_memory" if extra else "default")
        print("  retained alignments of r1 (same in both orders: %s): %s" % (a[0] == b[0], a[0]))
        print("  T1-like secondary record first: transcript_model_counts %s, r1 -> %s" % (a[1], a[2]))
        print("  T2-like secondary record first: transcript_model_counts %s, r1 -> %s" % (b[1], b[2]))
        if a[1] != b[1] or a[2] != b[2]:
            print("  VIOLATION: the tables depend on the order of two records with the same start position; "
                  "the read is kept on both alignments but attached to the model of the first one only")
            violated = True
    shutil.rmtree(WORK, ignore_errors=True)
    return 1 if violated else 0


if __name__ == "__main__":
    sys.exit(main())
