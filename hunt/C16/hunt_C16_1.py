#!/usr/bin/env python3
"""
C16 hunt, finding 1: an exon that is counted BOTH as an aligned polyA exon and as an
aligned polyT exon makes polya_count + polyt_count > len(read_exons).  PolyAFixer.correct_read_info
only guards the case "== len(read_exons)", so AlignmentInfo.add_polya_info first cuts the polyA exons,
then tries to cut more polyT exons than are left: shift_polyt() indexes past the end of the exon list
(IndexError) - i.e. the trimming would produce an empty exon list, and one such read aborts the whole run.

Part A: function level, real PolyAFinder / PolyAFixer with the default parameters on a pysam record.
Part B: end-to-end isoquant.py run on a tiny synthetic data set holding one such read.

Exit 1 = property violated, exit 0 = fine.
"""
import os
import random
import shutil
import subprocess
import sys
import traceback

REPO = os.path.dirname(os.path.abspath(__file__))
sys.path.insert(0, REPO)
import pysam

from src.alignment_info import AlignmentInfo
from src.polya_finder import PolyAFinder
from src.polya_verification import PolyAFixer

SCRATCH = "/tmp/huntscratch_C16/hunt1"

# read = 24 T, "AATTTT", 30 A; aligned completely as three exons of 20 / 12 / 28 bases
SEQ = "T" * 24 + "AATTTT" + "A" * 30
CIGAR = "20M200N12M200N28M"
POS0 = 1000  # 0-based


class Params:
    max_fake_terminal_exon_len = 40  # value of the 'default' (nanopore) matching strategy


def part_a():
    problems = []
    hdr = pysam.AlignmentHeader.from_dict({'HD': {'VN': '1.0'}, 'SQ': [{'SN': 'chr1', 'LN': 6000}]})
    a = pysam.AlignedSegment(hdr)
    a.query_name = 'bad'
    a.query_sequence = SEQ
    a.flag = 0
    a.reference_id = 0
    a.reference_start = POS0
    a.mapping_quality = 60
    a.cigarstring = CIGAR

    finder = PolyAFinder(16, 0.75)
    fixer = PolyAFixer(Params)
    info = AlignmentInfo(a)
    exons = list(info.read_exons)
    polya = finder.detect_polya(a)
    counts = fixer.correct_read_info(exons, polya)
    print("[A] exons %s  internal polyA %d  internal polyT %d  -> (polyA exons, polyT exons) = %s" %
          (exons, polya.internal_polya_pos, polya.internal_polyt_pos, str(counts)))
    if counts[0] + counts[1] >= len(exons):
        problems.append("[A] correct_read_info asks to remove %d + %d exons out of %d: nothing would be left"
                        % (counts[0], counts[1], len(exons)))
    try:
        info.add_polya_info(finder, fixer)
        ex = info.read_exons
        if not ex:
            problems.append("[A] exon list is empty after polyA/polyT trimming")
        elif ex != sorted(ex):
            problems.append("[A] exon list unordered after trimming: %s" % str(ex))
        else:
            print("[A] exons after trimming: %s" % str(ex))
    except Exception as e:
        problems.append("[A] AlignmentInfo.add_polya_info raised %s: %s" % (type(e).__name__, e))
        traceback.print_exc(file=sys.stdout)
    return problems


def part_b():
    problems = []
    shutil.rmtree(SCRATCH, ignore_errors=True)
    os.makedirs(os.path.join(SCRATCH, "home"))
    rnd = random.Random(7)
    g = ''.join(rnd.choice('ACGT') for _ in range(6000))
    fa = os.path.join(SCRATCH, "genome.fa")
    with open(fa, "w") as f:
        f.write(">chr1\n")
        for i in range(0, len(g), 60):
            f.write(g[i:i + 60] + "\n")
    gtf = os.path.join(SCRATCH, "annot.gtf")
    with open(gtf, "w") as f:
        def rec(feat, s, e, attrs):
            f.write('\t'.join(['chr1', 't', feat, str(s), str(e), '.', '+', '.', attrs]) + '\n')
        rec('gene', 901, 2500, 'gene_id "G1";')
        rec('transcript', 901, 2500, 'gene_id "G1"; transcript_id "T1";')
        rec('exon', 901, 1100, 'gene_id "G1"; transcript_id "T1";')
        rec('exon', 1301, 1500, 'gene_id "G1"; transcript_id "T1";')
        rec('exon', 2001, 2500, 'gene_id "G1"; transcript_id "T1";')
    bam = os.path.join(SCRATCH, "reads.bam")
    hdr = pysam.AlignmentHeader.from_dict({'HD': {'VN': '1.0', 'SO': 'coordinate'},
                                           'SQ': [{'SN': 'chr1', 'LN': 6000}]})
    with pysam.AlignmentFile(bam, 'wb', header=hdr) as f:
        def w(name, pos, cigar, seq):
            a = pysam.AlignedSegment(hdr)
            a.query_name = name
            a.query_sequence = seq
            a.flag = 0
            a.reference_id = 0
            a.reference_start = pos
            a.mapping_quality = 60
            a.cigarstring = cigar
            a.query_qualities = pysam.qualitystring_to_array('I' * len(seq))
            f.write(a)
        w('normal1', 950, '150M200N200M500N100M', g[950:1100] + g[1300:1500] + g[2000:2100])
        w('bad', POS0, CIGAR, SEQ)
    pysam.index(bam)

    env = dict(os.environ, HOME=os.path.join(SCRATCH, "home"))
    out = os.path.join(SCRATCH, "out")
    cmd = [sys.executable, os.path.join(REPO, "isoquant.py"), "--reference", fa, "--genedb", gtf,
           "--complete_genedb", "--bam", bam, "--data_type", "nanopore", "-o", out, "--threads", "1", "--no_gzip"]
    try:
        p = subprocess.run(cmd, env=env, stdout=subprocess.PIPE, stderr=subprocess.STDOUT, text=True, timeout=50)
    except subprocess.TimeoutExpired:
        print("[B] isoquant.py did not finish in 50 s - end-to-end part skipped")
        return problems
    ra = os.path.join(out, "OUT", "OUT.read_assignments.tsv")
    crashed = "IndexError" in p.stdout or p.returncode != 0
    if crashed:
        tail = [l for l in p.stdout.splitlines() if l.strip()][-6:]
        problems.append("[B] isoquant.py aborts (rc=%d) because of ONE read (%s, CIGAR %s):\n      %s"
                        % (p.returncode, 'bad', CIGAR, "\n      ".join(tail)))
    elif not os.path.exists(ra):
        problems.append("[B] isoquant.py produced no read_assignments.tsv")
    else:
        rows = [l.rstrip('\n').split('\t') for l in open(ra) if not l.startswith('#')]
        rows = [r for r in rows if r and r[0] == 'bad']
        for r in rows:
            exons = r[7]
            print("[B] read 'bad' reported with exons %s" % exons)
            if not exons or exons == '.':
                problems.append("[B] read 'bad' reported with an empty exon list")
    return problems


def main():
    problems = part_a()
    try:
        problems += part_b()
    finally:
        shutil.rmtree(SCRATCH, ignore_errors=True)
    if problems:
        print("\nC16 VIOLATED:")
        for p in problems:
            print("  " + p)
        sys.exit(1)
    print("C16 holds on this input")
    sys.exit(0)


if __name__ == "__main__":
    main()
