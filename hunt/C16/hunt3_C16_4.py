#!/usr/bin/env python3
"""C16, third search, finding 4 (depends on interpretation; contrived CIGARs inside the exhaustive quantifier).

The statement: exons are "exactly the maximal reference intervals covered by match and deletion operations between
N gaps".  get_read_blocks() drops every block between N gaps (or between a gap and the read end) that has no
M/=/X operation, so a reference interval covered by a deletion only is not reported:
    200M 400N 5D 395N 200M   -> 1001-1200, 2001-2200        (1601-1605 missing)
    2D 3N 4M                 -> 6-9                         (1-2 missing; read_start != POS)
    100M 500N 5D  + 40S polyA -> exon 1001-1100, but the polyA position is taken from reference_end (1605)
If "covered by match AND deletion operations" is read as "blocks that contain at least one aligned base" the code is
right; the third case then still leaves the recorded tail position 505 bases behind the only exon.

exit 1 = a deletion-only block is dropped, 0 = fine.
"""
import os
import sys

HERE = os.path.dirname(os.path.abspath(__file__))
sys.path.insert(0, HERE)
import pysam  # noqa: E402
from src.common import get_read_blocks  # noqa: E402
from src.polya_finder import PolyAFinder  # noqa: E402

bad = False
for ref_start, cigar, expected in ((1000, [(0, 200), (3, 400), (2, 5), (3, 395), (0, 200)],
                                    [(1001, 1200), (1601, 1605), (2001, 2200)]),
                                   (0, [(2, 2), (3, 3), (0, 4)], [(1, 2), (6, 9)])):
    got = get_read_blocks(ref_start, cigar)[0]
    print(cigar, "->", got)
    if got != expected:
        print("  DIFFERENT from the maximal M/D intervals between N gaps:", expected)
        bad = True

header = pysam.AlignmentHeader.from_dict({'HD': {'VN': '1.6'}, 'SQ': [{'SN': 'chr1', 'LN': 20000}]})
a = pysam.AlignedSegment(header)
a.query_name = "r"
a.flag = 0
a.reference_id = 0
a.reference_start = 1000
a.mapping_quality = 60
a.cigarstring = "100M500N5D40S"
a.query_sequence = "CGTCGGCTGCCGTCGGCTGC" * 5 + "A" * 40
exons = get_read_blocks(a.reference_start, a.cigartuples)[0]
pos = PolyAFinder().find_polya_external(a)
print(a.cigarstring, "exons", exons, "external polyA position", pos)
if pos > exons[-1][1] + 1:
    print("  the tail position is %d bases behind the last reported exon" % (pos - exons[-1][1]))
    bad = True
sys.exit(1 if bad else 0)
