#!/venv/bin/python
"""
C16, second pass, finding 1.

When terminal exons that consist of an aligned polyA/polyT tail are removed, shift_polya / shift_polyt
(src/polya_verification.py) also "move" a tail position that ALREADY lies on the retained exon: it is pushed
to the end (polyA) or to the start (polyT) of the retained exon, i.e. up to ~60 bp away from the place where the
tail really begins.  The recorded tail position therefore stops being the position of the tail on the retained exon.

Part 1 calls the repository functions directly, part 2 runs the whole pipeline on two alignments of the same read
that differ only in whether the last 11 tail bases are soft-clipped or aligned as a spurious exon.

exit 1 = property violated, exit 0 = fine.
"""
import os
import random
import shutil
import subprocess
import sys

REPO = os.path.dirname(os.path.abspath(__file__))
sys.path.insert(0, REPO)
import pysam  # noqa: E402
from src.alignment_info import AlignmentInfo  # noqa: E402
from src.polya_finder import PolyAFinder  # noqa: E402
from src.polya_verification import PolyAFixer, shift_polya, shift_polyt  # noqa: E402

problems = []


# ---------------------------------------------------------------------------------------------------------------
# part 1: functions of the repository
# ---------------------------------------------------------------------------------------------------------------
class Params:
    max_fake_terminal_exon_len = 40  # default matching strategy


exons = [(100, 500), (800, 810)]
got = shift_polya(exons, 1, 458)
print("shift_polya(%s, 1, 458) = %d   (tail starts at 458, inside the retained exon 100-500)" % (exons, got))
if got != 458:
    problems.append("shift_polya moved a tail position lying on the retained exon: 458 -> %d" % got)

exons = [(100, 110), (400, 800)]
got = shift_polyt(exons, 1, 470)
print("shift_polyt(%s, 1, 470) = %d   (head ends at 470, inside the retained exon 400-800)" % (exons, got))
if got != 470:
    problems.append("shift_polyt moved a head position lying on the retained exon: 470 -> %d" % got)

rnd = random.Random(5)
L = 4000
introns = [(501, 700), (1001, 1400)]
g = [rnd.choice('ACGT') for _ in range(L)]
for s, e in introns:
    g[s - 1:s + 1] = 'GT'
    g[e - 2:e] = 'AG'
genome = ''.join(g)
header = pysam.AlignmentHeader.from_dict({'HD': {'VN': '1.0', 'SO': 'coordinate'}, 'SQ': [{'SN': 'chr1', 'LN': L}]})


def make_read(name, blocks, clip_a, tail_from):
    """read follows the genome up to tail_from (1-based), everything after it is the polyA tail"""
    cigar, seq = [], []
    for i, (s, e) in enumerate(blocks):
        if i:
            cigar.append((3, s - blocks[i - 1][1] - 1))
        cigar.append((0, e - s + 1))
        seq += ['A' if p > tail_from else genome[p - 1] for p in range(s, e + 1)]
    if clip_a:
        cigar.append((4, clip_a))
        seq.append('A' * clip_a)
    a = pysam.AlignedSegment(header)
    a.query_name = name
    a.reference_id = 0
    a.reference_start = blocks[0][0] - 1
    a.cigartuples = cigar
    a.query_sequence = ''.join(seq)
    a.flag = 0
    a.mapping_quality = 60
    return a


TAIL_FROM = 1647
# the same read twice: 3 real exons, the tail begins after 1647; 53 tail bases are aligned as a continuation of the
# last exon, the next 11 tail bases are either aligned 200 bp downstream (A) or soft-clipped (B)
read_a = make_read('A_tail_piece_aligned_as_exon', [(201, 500), (701, 1000), (1401, 1700), (1901, 1911)], 20, TAIL_FROM)
read_b = make_read('B_tail_piece_soft_clipped', [(201, 500), (701, 1000), (1401, 1700)], 31, TAIL_FROM)

finder = PolyAFinder(16, 0.75)
before = finder.detect_polya(read_a).internal_polya_pos
info = AlignmentInfo(read_a)
info.add_polya_info(finder, PolyAFixer(Params))
after = info.polya_info.internal_polya_pos
print("read A: exons after trimming %s, tail position before trimming %d, after trimming %d"
      % (info.read_exons, before, after))
last = info.read_exons[-1]
if info.exons_changed and last[0] <= before <= last[1] and after != before:
    problems.append("AlignmentInfo.add_polya_info: the tail starts at %d on the retained exon %s, "
                    "but %d is recorded after the spurious exon was removed" % (before, str(last), after))

# ---------------------------------------------------------------------------------------------------------------
# part 2: whole pipeline
# ---------------------------------------------------------------------------------------------------------------
wd = '/tmp/hunt2scratch_C16/demo1'
shutil.rmtree(wd, ignore_errors=True)
os.makedirs(os.path.join(wd, 'home'))
fa = os.path.join(wd, 'genome.fa')
with open(fa, 'w') as f:
    f.write('>chr1\n')
    for i in range(0, L, 60):
        f.write(genome[i:i + 60] + '\n')
gtf = os.path.join(wd, 'annot.gtf')
iso = [(201, 500), (701, 1000), (1401, 1640)]
with open(gtf, 'w') as f:
    f.write('chr1\tsrc\tgene\t201\t1640\t.\t+\t.\tgene_id "G1";\n')
    f.write('chr1\tsrc\ttranscript\t201\t1640\t.\t+\t.\tgene_id "G1"; transcript_id "T1";\n')
    for s, e in iso:
        f.write('chr1\tsrc\texon\t%d\t%d\t.\t+\t.\tgene_id "G1"; transcript_id "T1";\n' % (s, e))
bam = os.path.join(wd, 'reads.bam')
with pysam.AlignmentFile(bam, 'wb', header=header) as out:
    for a in (read_a, read_b):
        out.write(a)
pysam.index(bam)
out_dir = os.path.join(wd, 'out')
cmd = [sys.executable, os.path.join(REPO, 'isoquant.py'), '--reference', fa, '--genedb', gtf, '--complete_genedb',
       '--bam', bam, '--data_type', 'nanopore', '-o', out_dir, '--threads', '1', '--no_gzip']
p = subprocess.run(cmd, env=dict(os.environ, HOME=os.path.join(wd, 'home')), stdout=subprocess.PIPE,
                   stderr=subprocess.STDOUT, text=True)
if p.returncode != 0:
    print(p.stdout[-3000:])
    problems.append("IsoQuant exited with code %d" % p.returncode)
else:
    rows = {}
    for line in open(os.path.join(out_dir, 'OUT', 'OUT.read_assignments.tsv')):
        if line.startswith('#') or line.startswith('read_id'):
            continue
        fld = line.rstrip('\n').split('\t')
        rows[fld[0]] = fld
        print('  '.join([fld[0], fld[5], fld[6], fld[7]]))
    ev_a = rows['A_tail_piece_aligned_as_exon'][6]
    ev_b = rows['B_tail_piece_soft_clipped'][6]
    # both alignments report the same exons; the tail of both begins after 1647, 7 bp from the annotated end 1640
    if rows['A_tail_piece_aligned_as_exon'][7] == rows['B_tail_piece_soft_clipped'][7]:
        if 'correct_polya_site_right:%d' % TAIL_FROM in ev_b and 'correct_polya_site_right:%d' % TAIL_FROM not in ev_a:
            problems.append("pipeline: same read, same reported exons, tail begins at %d in both; with the spurious "
                            "tail exon removed the recorded site is '%s' (%s) instead of "
                            "correct_polya_site_right:%d (%s)" %
                            (TAIL_FROM, ev_a, rows['A_tail_piece_aligned_as_exon'][5], TAIL_FROM,
                             rows['B_tail_piece_soft_clipped'][5]))
shutil.rmtree(wd, ignore_errors=True)
try:
    os.rmdir(os.path.dirname(wd))
except OSError:
    pass

if problems:
    print("\nPROPERTY C16 VIOLATED:")
    for x in problems:
        print(" - " + x)
    sys.exit(1)
print("ok")
sys.exit(0)
