#!/venv/bin/python
"""
C16, second pass, side finding 2 (adjacent to the property: outside its stated quantifier, which only ranges over
CIGAR strings of mapped records).

A coordinate-sorted BAM may contain "placed" unmapped records: FLAG 0x4 set, RNAME/POS filled in, CIGAR '*'
(SAM specification section 1.4: for a record with 0x4 "no assumptions can be made about RNAME, POS, CIGAR";
the spec recommends giving unmapped reads the RNAME/POS of the mate / of the place they sort to).
By SAM semantics such a record has no alignment and therefore no exon blocks.  IsoQuant only tests
`alignment.reference_id == -1`, takes the record for an alignment and the whole run dies with a TypeError
(reference_end is None) before any read gets its exon blocks.

exit 1 = run aborted / well-formed read lost, exit 0 = fine.
"""
import os
import random
import shutil
import subprocess
import sys

REPO = os.path.dirname(os.path.abspath(__file__))
import pysam  # noqa: E402

rnd = random.Random(5)
L = 4000
introns = [(501, 700), (1001, 1400)]
g = [rnd.choice('ACGT') for _ in range(L)]
for s, e in introns:
    g[s - 1:s + 1] = 'GT'
    g[e - 2:e] = 'AG'
genome = ''.join(g)
header = pysam.AlignmentHeader.from_dict({'HD': {'VN': '1.0', 'SO': 'coordinate'}, 'SQ': [{'SN': 'chr1', 'LN': L}]})

wd = '/tmp/hunt2scratch_C16/demo2'
shutil.rmtree(wd, ignore_errors=True)
os.makedirs(os.path.join(wd, 'home'))
fa = os.path.join(wd, 'genome.fa')
with open(fa, 'w') as f:
    f.write('>chr1\n')
    for i in range(0, L, 60):
        f.write(genome[i:i + 60] + '\n')
gtf = os.path.join(wd, 'annot.gtf')
iso = [(201, 500), (701, 1000), (1401, 1640)]
with open(gtf, 'w') as f:
    f.write('chr1\tsrc\tgene\t201\t1640\t.\t+\t.\tgene_id "G1";\n')
    f.write('chr1\tsrc\ttranscript\t201\t1640\t.\t+\t.\tgene_id "G1"; transcript_id "T1";\n')
    for s, e in iso:
        f.write('chr1\tsrc\texon\t%d\t%d\t.\t+\t.\tgene_id "G1"; transcript_id "T1";\n' % (s, e))

good = pysam.AlignedSegment(header)
good.query_name = 'good'
good.reference_id = 0
good.reference_start = 200
good.cigarstring = '300M200N300M400N240M'
good.query_sequence = genome[200:500] + genome[700:1000] + genome[1400:1640]
good.flag = 0
good.mapping_quality = 60

placed = pysam.AlignedSegment(header)
placed.query_name = 'placed_unmapped'
placed.reference_id = 0
placed.reference_start = 300
placed.cigarstring = None
placed.query_sequence = 'ACGT' * 50
placed.flag = 4
placed.mapping_quality = 0

bam = os.path.join(wd, 'reads.bam')
with pysam.AlignmentFile(bam, 'wb', header=header) as out:
    out.write(good)
    out.write(placed)
pysam.index(bam)
out_dir = os.path.join(wd, 'out')
cmd = [sys.executable, os.path.join(REPO, 'isoquant.py'), '--reference', fa, '--genedb', gtf, '--complete_genedb',
       '--bam', bam, '--data_type', 'nanopore', '-o', out_dir, '--threads', '1', '--no_gzip']
p = subprocess.run(cmd, env=dict(os.environ, HOME=os.path.join(wd, 'home')), stdout=subprocess.PIPE,
                   stderr=subprocess.STDOUT, text=True)
problems = []
if p.returncode != 0:
    print('\n'.join(p.stdout.rstrip().split('\n')[-8:]))
    problems.append("IsoQuant exited with code %d on a BAM that holds one good alignment and one placed unmapped "
                    "record" % p.returncode)
else:
    tsv = os.path.join(out_dir, 'OUT', 'OUT.read_assignments.tsv')
    rows = [l.split('\t') for l in open(tsv) if not l.startswith('#') and not l.startswith('read_id')]
    names = [r[0] for r in rows]
    print(names)
    if 'good' not in names:
        problems.append("the well-formed read is missing from read_assignments.tsv")
    if 'placed_unmapped' in names:
        problems.append("the unmapped record was given exon blocks")
shutil.rmtree(wd, ignore_errors=True)
try:
    os.rmdir(os.path.dirname(wd))
except OSError:
    pass
if problems:
    print("\nVIOLATION (SAM semantics of FLAG 0x4):")
    for x in problems:
        print(" - " + x)
    sys.exit(1)
print("ok")
sys.exit(0)
