#!/usr/bin/env python3
"""C16, third search, finding 2 (borderline: off by one, depends on what "onto the retained exon" has to mean).

The tail position is recorded as "1-based position of the last base in front of the polyA tail" and, for polyT,
"2 bases in front of the first base behind the head" (see the comment in graph_based_model_construction.py).
When a terminal exon is removed, shift_polya()/shift_polyt() glue the non-tail bases of the removed exon to the
retained exon, but count them one short (polyA: `polya_pos - exon[0]` is the number of bases in front of the
recorded base, the recorded base itself is a transcript base too) resp. record the polyT position one base too
far right (N-1 instead of N-2 for a retained exon that starts at N).

The same molecule (100 body bases, k more non-A bases, then A's) gives
   103M17S          -> external polyA 1103
   120M (A's aligned, one exon)          -> internal polyA 1103
   100M500N20M (A's and the k=3 bases aligned as a terminal exon of their own, removed) -> internal polyA 1102
and mirrored 996 / 996 / 997 for polyT.  With k=1 the base behind the retained exon is lost altogether (1100).

exit 1 = positions differ, 0 = fine.
"""
import os
import sys

HERE = os.path.dirname(os.path.abspath(__file__))
sys.path.insert(0, HERE)

import pysam  # noqa: E402
from src.alignment_info import AlignmentInfo  # noqa: E402
from src.polya_finder import PolyAFinder  # noqa: E402
from src.polya_verification import PolyAFixer  # noqa: E402

BODY = "CGTCGGCTGCCGTCGGCTGC" * 5


class Params:
    max_fake_terminal_exon_len = 20


HEADER = pysam.AlignmentHeader.from_dict({'HD': {'VN': '1.6'}, 'SQ': [{'SN': 'chr1', 'LN': 20000}]})


def positions(cigar, seq, start):
    a = pysam.AlignedSegment(HEADER)
    a.query_name = "r"
    a.flag = 0
    a.reference_id = 0
    a.reference_start = start
    a.mapping_quality = 60
    a.cigarstring = cigar
    a.query_sequence = seq
    info = AlignmentInfo(a)
    before = list(info.read_exons)
    info.add_polya_info(PolyAFinder(), PolyAFixer(Params()))
    pi = info.polya_info
    return before, info.read_exons, pi


bad = False
for k in (0, 1, 2, 3):
    extra = "CGC"[:k]
    seq = BODY + extra + "A" * (20 - k)
    _, _, soft = positions("%dM%dS" % (100 + k, 20 - k), seq, 1000)
    _, _, contiguous = positions("120M", seq, 1000)
    before, after, trimmed = positions("100M500N20M", seq, 1000)
    expected = soft.external_polya_pos
    print("polyA k=%d: soft-clipped tail -> %d, tail aligned in the same exon -> %d, tail exon %s removed -> %d" %
          (k, expected, contiguous.internal_polya_pos, str(before[-1]), trimmed.internal_polya_pos))
    if len(after) == 1 and trimmed.internal_polya_pos != expected:
        print("  DIFFERENT: expected %d (retained exon end 1100 + %d non-tail bases)" % (expected, k))
        bad = True
    seq = "T" * (20 - k) + extra + BODY
    _, _, soft = positions("%dS%dM" % (20 - k, 100 + k), seq, 1000 - k)
    _, _, contiguous = positions("120M", seq, 980)
    before, after, trimmed = positions("20M500N100M", seq, 480)
    expected = soft.external_polyt_pos
    print("polyT k=%d: soft-clipped head -> %d, head aligned in the same exon -> %d, head exon %s removed -> %d" %
          (k, expected, contiguous.internal_polyt_pos, str(before[0]), trimmed.internal_polyt_pos))
    if len(after) == 1 and trimmed.internal_polyt_pos != expected:
        print("  DIFFERENT: expected %d (2 bases in front of %d)" % (expected, 1001 - k))
        bad = True
sys.exit(1 if bad else 0)
