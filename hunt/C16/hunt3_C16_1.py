#!/usr/bin/env python3
"""C16, third search, finding 1.

After terminal exons that are an aligned polyA tail (polyT head) are removed, the EXTERNAL tail position is not moved
onto the retained exon: shift_polya()/shift_polyt() count the bases of the removed exon in front of the external
position as transcript bases, although they are tail bases (the internal position says the tail starts right after
the retained exon).  The recorded position ends up in the intron, up to (length of the removed exon - 3) bases
past the retained exon; a novel unspliced model built from such reads includes intron sequence.

Read 100M 500N 20M 20S, sequence = 100 body bases + 40 A, at chr1:1001:
  exons (1001,1100),(1601,1620) -> (1001,1100); internal polyA 1100 (fine), external polyA 1117 (not on 1001-1100).
The same molecule with the tail soft-clipped (100M40S) gives 1100.
Mirror: 20S 20M 500N 100M, 40 T + body: external polyT 983, retained exon starts at 1001 (soft-clipped: 999).

exit 1 = property violated, 0 = fine.
"""
import os
import shutil
import subprocess
import sys

HERE = os.path.dirname(os.path.abspath(__file__))
sys.path.insert(0, HERE)
ISOQUANT = os.path.join(HERE, "isoquant.py")
SCRATCH = "/tmp/hunt3scratch_C16/demo1"

import pysam  # noqa: E402

BODY = "CGTCGGCTGCCGTCGGCTGC" * 5  # 100 bases, no A/T runs


def function_level():
    from src.alignment_info import AlignmentInfo
    from src.polya_finder import PolyAFinder
    from src.polya_verification import PolyAFixer

    class Params:
        max_fake_terminal_exon_len = 20

    header = pysam.AlignmentHeader.from_dict({'HD': {'VN': '1.6'}, 'SQ': [{'SN': 'chr1', 'LN': 20000}]})
    bad = False
    for cigar, seq, start, side in (("100M500N20M20S", BODY + "A" * 40, 1000, "A"),
                                    ("20S20M500N100M", "T" * 40 + BODY, 480, "T")):
        a = pysam.AlignedSegment(header)
        a.query_name = "r"
        a.flag = 0
        a.reference_id = 0
        a.reference_start = start
        a.mapping_quality = 60
        a.cigarstring = cigar
        a.query_sequence = seq
        info = AlignmentInfo(a)
        before = list(info.read_exons)
        info.add_polya_info(PolyAFinder(), PolyAFixer(Params()))
        pi = info.polya_info
        retained = info.read_exons
        if side == "A":
            ext, inner = pi.external_polya_pos, pi.internal_polya_pos
            exon = retained[-1]
        else:
            ext, inner = pi.external_polyt_pos, pi.internal_polyt_pos
            exon = retained[0]
        print("%s: exons %s -> %s, internal poly%s %d, external poly%s %d" %
              (cigar, before, retained, side, inner, side, ext))
        # the polyT position is recorded up to 2 bases in front of the first transcript base
        on_exon = exon[0] - (2 if side == "T" else 0) <= ext <= exon[1]
        if len(retained) < len(before) and ext != -1 and not on_exon:
            print("  VIOLATION: terminal exon removed, but the external tail position %d is not on the retained "
                  "exon %s (it lies in the intron)" % (ext, str(exon)))
            bad = True
    return bad


def write_inputs():
    import random
    rng = random.Random(4)
    shutil.rmtree(SCRATCH, ignore_errors=True)
    os.makedirs(os.path.join(SCRATCH, "home"))
    seq = [rng.choice("ACGT") for _ in range(20000)]

    def put(pos0, s):
        seq[pos0:pos0 + len(s)] = list(s)
    # plus-strand locus: body 1001-1100, genomic A run 1601-1620 where the tail gets aligned
    put(1000, BODY)
    put(1600, "A" * 20)
    # minus-strand locus: genomic T run 5481-5500, body 6001-6100
    put(5480, "T" * 20)
    put(6000, BODY)
    genome = "".join(seq)
    with open(os.path.join(SCRATCH, "genome.fa"), "w") as f:
        f.write(">chr1\n")
        for i in range(0, len(genome), 60):
            f.write(genome[i:i + 60] + "\n")
    with open(os.path.join(SCRATCH, "annot.gtf"), "w") as f:
        g = 'gene_id "G1"; '
        t = g + 'transcript_id "T1"; '
        f.write('chr1\tsrc\tgene\t15001\t17200\t.\t+\t.\t%s\n' % g)
        f.write('chr1\tsrc\ttranscript\t15001\t17200\t.\t+\t.\t%s\n' % t)
        f.write('chr1\tsrc\texon\t15001\t15200\t.\t+\t.\t%s\n' % t)
        f.write('chr1\tsrc\texon\t17001\t17200\t.\t+\t.\t%s\n' % t)
    header = {'HD': {'VN': '1.6', 'SO': 'coordinate'}, 'SQ': [{'SN': 'chr1', 'LN': 20000}]}
    bam = os.path.join(SCRATCH, "reads.bam")
    with pysam.AlignmentFile(bam, "wb", header=header) as out:
        for name, start, cigar, s, n in (("fwd", 1000, "100M500N20M20S", BODY + "A" * 40, 8),
                                          ("rev", 5480, "20S20M500N100M", "T" * 40 + BODY, 8)):
            for i in range(n):
                a = pysam.AlignedSegment(out.header)
                a.query_name = "%s%d" % (name, i)
                a.flag = 0 if name == "fwd" else 16
                a.reference_id = 0
                a.reference_start = start
                a.mapping_quality = 60
                a.cigarstring = cigar
                a.query_sequence = s
                a.query_qualities = pysam.qualitystring_to_array("I" * len(s))
                out.write(a)
    pysam.index(bam)
    return bam


def end_to_end():
    bam = write_inputs()
    out = os.path.join(SCRATCH, "out")
    env = dict(os.environ, HOME=os.path.join(SCRATCH, "home"))
    cmd = ["/venv/bin/python", ISOQUANT, "--reference", os.path.join(SCRATCH, "genome.fa"),
           "--genedb", os.path.join(SCRATCH, "annot.gtf"), "--complete_genedb", "--bam", bam,
           "--data_type", "nanopore", "-o", out, "--threads", "1", "--no_gzip", "--report_novel_unspliced", "true"]
    p = subprocess.run(cmd, env=env, stdout=subprocess.PIPE, stderr=subprocess.STDOUT, text=True)
    if p.returncode != 0:
        print(p.stdout[-3000:])
        print("isoquant failed")
        return True
    read_exons = {}
    for line in open(os.path.join(out, "OUT", "OUT.read_assignments.tsv")):
        if line.startswith("#"):
            continue
        t = line.rstrip("\n").split("\t")
        read_exons[t[0]] = t[7]
    print("reported read exons:", sorted(set(read_exons.values())))
    bad = False
    for line in open(os.path.join(out, "OUT", "OUT.transcript_models.gtf")):
        if line.startswith("#"):
            continue
        t = line.split("\t")
        if t[2] != "exon":
            continue
        start, end = int(t[3]), int(t[4])
        print("model exon %d-%d %s" % (start, end, t[6]))
        if t[6] == "+" and start == 1001 and end != 1100:
            print("  VIOLATION: every supporting read ends at 1100 (its tail exon 1601-1620 was removed, the tail "
                  "starts right behind 1100), the model runs on to %d into the intron" % end)
            bad = True
        if t[6] == "-" and end == 6100 and start != 6001:
            print("  VIOLATION: every supporting read starts at 6001 (its polyT exon 5481-5500 was removed), "
                  "the model starts at %d in the intron" % start)
            bad = True
    return bad


if __name__ == "__main__":
    bad1 = function_level()
    bad2 = end_to_end()
    shutil.rmtree(SCRATCH, ignore_errors=True)
    sys.exit(1 if (bad1 or bad2) else 0)
