#!/usr/bin/env python3
"""C16, third search, finding 5 (function level only: concat_gapless_blocks() in src/common.py is used by
src/10x_profiles.py alone, which isoquant.py never imports; tests/test_common.py::test_concat pins one case that
stays valid).

concat_gapless_blocks(alignment.get_blocks(), cigartuples) is the second CIGAR -> exon routine of the anchored file.
It disagrees with SAM semantics (and with get_read_blocks) for
  * a deletion at the very end of the alignment or right in front of the final clipping: the loop stops as soon as
    the last pysam block is consumed, the deletion is not added (2M3D -> 11-12 instead of 11-15);
  * a deletion-only block in front of an N gap: `deletions_before_block` survives the gap and is subtracted from the
    start of the NEXT exon (2D3N4M at POS 11 -> 14-19 instead of 16-19: 2 intron bases reported as exon);
  * D I D in front of the first match of a block: `deletions_before_block` is overwritten, not accumulated.

exit 1 = differs from get_read_blocks, 0 = fine.
"""
import itertools
import os
import sys

HERE = os.path.dirname(os.path.abspath(__file__))
sys.path.insert(0, HERE)
import pysam  # noqa: E402
from src.common import concat_gapless_blocks, correct_bam_coords, get_read_blocks  # noqa: E402

header = pysam.AlignmentHeader.from_dict({'HD': {'VN': '1.6'}, 'SQ': [{'SN': 'chr1', 'LN': 20000}]})


def valid(ops):
    n = len(ops)
    for i, o in enumerate(ops):
        if o == 5 and i not in (0, n - 1):
            return False
        if o == 4 and not (all(x == 5 for x in ops[:i]) or all(x == 5 for x in ops[i + 1:])):
            return False
    return any(o in (0, 7, 8) for o in ops) and all(a != b for a, b in zip(ops, ops[1:]))


shown = 0
different = 0
total = 0
for n in range(1, 6):
    for ops in itertools.product([0, 1, 2, 3, 4, 5, 7, 8], repeat=n):
        if not valid(ops):
            continue
        cigar = [(o, 2 + i) for i, o in enumerate(ops)]
        a = pysam.AlignedSegment(header)
        a.reference_id = 0
        a.reference_start = 10
        a.cigartuples = cigar
        total += 1
        got = correct_bam_coords(concat_gapless_blocks(a.get_blocks(), cigar))
        expected = get_read_blocks(10, cigar)[0]
        if got != expected:
            different += 1
            if a.cigarstring in ("2M3D", "2D3N4M", "2M3N4D5I6D7M") or shown < 5:
                shown += 1
                print("%-16s concat_gapless_blocks %s   get_read_blocks %s" % (a.cigarstring, got, expected))
print("%d of %d CIGAR strings of up to 5 operations give different exons" % (different, total))
sys.exit(1 if different else 0)
