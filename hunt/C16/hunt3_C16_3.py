#!/usr/bin/env python3
"""C16, third search, finding 3 (outside the quantifier's alphabet {M,=,X,I,D,N,S,H}: needs the SAM operation P).

A valid CIGAR with a padding operation (P, "silent deletion from padded reference", consumes neither query nor
reference) within the last/first ~64 aligned bases of a read that carries a polyA tail / polyT head kills the whole
run: move_ref_coord_alogn_alignment() reaches its "unexpected event" branch, which concatenates a str and an int:
    logger.warning("Unexpected event: " + cigar_event)      -> TypeError
get_read_blocks() itself ignores P correctly (exons 1001-1200,2001-2200,3001-3300).

exit 1 = run crashed / exons wrong, 0 = fine.
"""
import os
import random
import shutil
import subprocess
import sys

import pysam

HERE = os.path.dirname(os.path.abspath(__file__))
ISOQUANT = os.path.join(HERE, "isoquant.py")
SCRATCH = "/tmp/hunt3scratch_C16/demo3"

shutil.rmtree(SCRATCH, ignore_errors=True)
os.makedirs(os.path.join(SCRATCH, "home"))
rng = random.Random(2)
genome = "".join(rng.choice("ACGT") for _ in range(20000))
with open(os.path.join(SCRATCH, "genome.fa"), "w") as f:
    f.write(">chr1\n")
    for i in range(0, len(genome), 60):
        f.write(genome[i:i + 60] + "\n")
with open(os.path.join(SCRATCH, "annot.gtf"), "w") as f:
    g = 'gene_id "G1"; '
    t = g + 'transcript_id "T1"; '
    f.write('chr1\tsrc\tgene\t1001\t3300\t.\t+\t.\t%s\n' % g)
    f.write('chr1\tsrc\ttranscript\t1001\t3300\t.\t+\t.\t%s\n' % t)
    for s, e in ((1001, 1200), (2001, 2200), (3001, 3300)):
        f.write('chr1\tsrc\texon\t%d\t%d\t.\t+\t.\t%s\n' % (s, e, t))
body = genome[1000:1200] + genome[2000:2200] + genome[3000:3300]
header = {'HD': {'VN': '1.6', 'SO': 'coordinate'}, 'SQ': [{'SN': 'chr1', 'LN': 20000}]}
bam = os.path.join(SCRATCH, "reads.bam")
with pysam.AlignmentFile(bam, "wb", header=header) as out:
    for name, cigar, seq in (("plain", "200M800N200M800N300M30S", body[:-25] + "A" * 55),
                             ("padded", "200M800N200M800N280M2P20M30S", body[:-25] + "A" * 55)):
        a = pysam.AlignedSegment(out.header)
        a.query_name = name
        a.flag = 0
        a.reference_id = 0
        a.reference_start = 1000
        a.mapping_quality = 60
        a.cigarstring = cigar
        a.query_sequence = seq
        a.query_qualities = pysam.qualitystring_to_array("I" * len(seq))
        out.write(a)
pysam.index(bam)
out_dir = os.path.join(SCRATCH, "out")
env = dict(os.environ, HOME=os.path.join(SCRATCH, "home"))
cmd = ["/venv/bin/python", ISOQUANT, "--reference", os.path.join(SCRATCH, "genome.fa"),
       "--genedb", os.path.join(SCRATCH, "annot.gtf"), "--complete_genedb", "--bam", bam,
       "--data_type", "nanopore", "-o", out_dir, "--threads", "1", "--no_gzip"]
p = subprocess.run(cmd, env=env, stdout=subprocess.PIPE, stderr=subprocess.STDOUT, text=True)
bad = False
if p.returncode != 0:
    print("\n".join(p.stdout.strip().split("\n")[-6:]))
    print("VIOLATION: isoquant.py exit code %d on a BAM whose only unusual feature is a 2P operation" % p.returncode)
    bad = True
else:
    rows = {}
    for line in open(os.path.join(out_dir, "OUT", "OUT.read_assignments.tsv")):
        if not line.startswith("#"):
            t = line.rstrip("\n").split("\t")
            rows[t[0]] = t[7]
    print(rows)
    if rows.get("padded") != "1001-1200,2001-2200,3001-3300":
        print("VIOLATION: wrong exons for the padded read")
        bad = True
shutil.rmtree(SCRATCH, ignore_errors=True)
sys.exit(1 if bad else 0)
