#!/bin/sh
# Offline set-up: make sure hypothesis is importable from the interpreter that has the repository's dependencies.
set -e
PY="${VERIF_PYTHON:-/venv/bin/python}"
if ! "$PY" -c "import hypothesis" 2>/dev/null; then
    "$PY" -m pip install --no-index --find-links /opt/veriftools/wheels hypothesis
fi
HERE="$(cd "$(dirname "$0")" && pwd)"
# atheris (coverage-guided stages) lives beside the checks, not in /venv
if ! PYTHONPATH="$HERE/.deps" "$PY" -c "import atheris" 2>/dev/null; then
    "$PY" -m pip install -q --no-index --find-links /opt/veriftools/wheels --target "$HERE/.deps" atheris
fi
"$PY" -c "import hypothesis, pysam, gffutils; print('hypothesis', hypothesis.__version__, 'pysam', pysam.__version__)"
mkdir -p "$(dirname "$0")/evidence"
